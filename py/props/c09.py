"""C09 — radial psi grid.  The model is GENERATED from Equilibrium.getSmoothMonotonicGridFunc on every run
(py/gen/gen_spacing.py -> lean/HypnoModel/Gen/Spacing.lean); this module (a) regenerates it, (b) validates the
translator by executing the Float twins against the Python, (c) runs the direct oracle on the implementation."""
import contextlib
import io
import math
import warnings

import os
import sys

import numpy as np

import vlib

PATHS = ["linear", "lowerPoly", "lowerErf", "upperPoly", "upperErf", "bothTrig", "bothSici"]


def pre(res):
    """regenerate the model from the current source; a translator failure is handled like a failed proof"""
    from gen import gen_spacing, gen_tokamak

    try:
        changed = gen_spacing.main()
        changed = gen_tokamak.main() or changed
        res.extra["generated"] = {"files": ["lean/HypnoModel/Gen/Spacing.lean", "lean/HypnoModel/Gen/Tokamak.lean"], "changed_since_last_run": bool(changed)}
    except Exception as e:  # fail closed
        res.extra["generated"] = {"error": "%s: %s" % (type(e).__name__, e)}
        res.gen_error = "%s: %s" % (type(e).__name__, e)


def eq_stub():
    from hypnotoad.core.equilibrium import Equilibrium

    class E(Equilibrium):
        def __init__(self):
            pass

    return E()


def classify(n, lo, up, gl, gu):
    if gl is None and gu is None:
        return "linear"
    tol = 1.0 + 1.0e-8
    if gu is None:
        return "lowerPoly" if abs(gl * n) < abs(up - lo) * tol else "lowerErf"
    if gl is None:
        return "upperPoly" if abs(gu * n) < abs(up - lo) * tol else "upperErf"
    return "bothTrig" if 0.5 * abs(gl + gu) * n < abs(up - lo) * tol else "bothSici"


def gen_params(r):
    n = r.choice([1, 2, 3, 4, 5, 8, 16, 33, r.randint(1, 200)])
    lo = r.uniform(-2, 2)
    d = r.choice([1, -1]) * 10 ** r.uniform(-3, 0.5)
    up = lo + d
    mean = d / n
    which = r.choice(["none", "lower", "upper", "both", "both", "lower", "upper"])

    def grad():
        c = r.random()
        if c < 0.25:
            # dense at the branch switch
            return mean * (1 + r.choice([-1, 1]) * 10 ** r.uniform(-12, -2))
        return mean * 10 ** r.uniform(math.log10(0.05), math.log10(20))

    gl = grad() if which in ("lower", "both") else None
    gu = grad() if which in ("upper", "both") else None
    if which == "both" and r.random() < 0.3:
        # average gradient near the switch
        gu = 2 * mean * (1 + r.choice([-1, 1]) * 10 ** r.uniform(-12, -2)) - gl
        if gu * d <= 0:
            gu = mean
    return n, lo, up, gl, gu


def call_impl(e, n, lo, up, gl, gu):
    with warnings.catch_warnings(), contextlib.redirect_stdout(io.StringIO()):
        warnings.simplefilter("ignore")
        return e.getSmoothMonotonicGridFunc(n, lo, up, grad_lower=gl, grad_upper=gu)


def recover_root(f, path, n, lo, up, gl, gu):
    """the brentq root is a local of the implementation; recover it from the closure of the returned lambda"""
    try:
        cl = dict(zip(f.__code__.co_freevars, [c.cell_contents for c in f.__closure__]))
    except Exception:
        return None
    return cl.get("a", cl.get("b"))


def oracle(e, f, n, lo, up, gl, gu, path):
    """direct checks of the property on one constructed spacing function; returns list of (wid, msg[, marker])"""
    bad = []
    d = up - lo
    scale = max(abs(lo), abs(up), abs(d))
    closed = path in ("linear", "lowerPoly", "upperPoly", "bothTrig")
    tol_end = (8 * np.finfo(float).eps * scale) if closed else 1e-8 * abs(d) + 8 * np.finfo(float).eps * scale
    f0, fn = float(f(0.0)), float(f(float(n)))
    if abs(f0 - lo) > tol_end:
        bad.append(("end0:" + path, "f(0) = %r, requested lower boundary %r (path %s)" % (f0, lo, path)))
    if abs(fn - up) > tol_end:
        bad.append(("endn:" + path, "f(n) = %r, requested upper boundary %r (path %s)" % (fn, up, path)))
    # strictly monotone in the direction of upper-lower on the faces and centres — or refused by make1dGrid's guard
    # (in floating point the erf/sici tails can saturate; the property allows an explicit refusal, not a silent tie)
    xs = np.linspace(0.0, n, 2 * n + 1)
    vals = np.array([float(f(x)) for x in xs])
    diffs = np.diff(vals) * np.sign(d)
    try:
        grid = e.make1dGrid(n, f)
        refused = False
    except ValueError:
        refused = True
    fd = np.diff(np.array([float(f(float(i))) for i in range(n + 1)])) * np.sign(d)
    if not refused and not (fd > 0).all():
        bad.append(("mono:" + path, "make1dGrid accepts faces that are not strictly monotone (path %s)" % path))
    if (diffs < -1e-13 * abs(d)).any():
        bad.append(("mono-reversed:" + path, "values decrease against the direction of upper-lower near index %r (path %s)" % (
            float(xs[int(np.argmin(diffs))]), path)))
    if refused:
        bad.append(("REFUSED", "make1dGrid refuses", None))
    # end gradients (central differences inside the interval are one-sided here: use a small step)
    h = 1e-4 * n  # large enough that rounding noise of the sici form (1e-10*d) does not dominate, small enough for O(h^2)
    if gl is not None:
        g0 = (float(f(h)) - float(f(0.0))) / h
        if abs(g0 - gl) > 1e-4 * max(abs(gl), abs(d) / n):
            bad.append(("grad0:" + path, "df/di(0) = %r, requested %r" % (g0, gl)))
    if gu is not None:
        g1 = (float(f(float(n))) - float(f(n - h))) / h
        if abs(g1 - gu) > 1e-4 * max(abs(gu), abs(d) / n):
            bad.append(("gradn:" + path, "df/di(n) = %r, requested %r" % (g1, gu)))
    return bad


def check_functions(res, r, ncases):
    e = eq_stub()
    lines, pend = [], []
    hits = {p: 0 for p in PATHS}
    refusals = {}
    for _ in range(ncases):
        n, lo, up, gl, gu = gen_params(r)
        path = classify(n, lo, up, gl, gu)
        try:
            f = call_impl(e, n, lo, up, gl, gu)
        except Exception as ex:
            res.case(key=("refused", path, type(ex).__name__), nontrivial=False)
            continue
        hits[path] += 1
        params = {"n": n, "lower": lo, "upper": up, "grad_lower": gl, "grad_upper": gu}
        res.case(key=(path, n, round(math.log10(abs(up - lo)), 1), None if gl is None else round(gl * n / (up - lo), 3),
                      None if gu is None else round(gu * n / (up - lo), 3)),
                 nontrivial=(path != "linear"), sample=dict(params, path=path) if len(res.samples) < 6 else None)
        near = path == "bothSici" and abs(0.5 * abs(gl + gu) * n / abs(up - lo) - 1.0) < 2.0e-3
        for item in oracle(e, f, n, lo, up, gl, gu, path):
            wid, msg = item[0], item[1]
            if wid == "REFUSED":
                refusals["make1dGrid"] = refusals.get("make1dGrid", 0) + 1
                continue
            if near:
                # one finding: the sici branch is ill-conditioned just above the branch switch
                wid = "bothSici-near-branch-switch"
            res.violation(wid, msg, params)
        # nesting: doubling n with the same boundary gradient per unit of normalised index keeps every old face
        try:
            f2 = call_impl(e, 2 * n, lo, up, None if gl is None else gl / 2, None if gu is None else gu / 2)
            worst = max(abs(float(f2(2.0 * i)) - float(f(float(i)))) for i in range(n + 1))
            if worst > 1e-8 * abs(up - lo) + 1e-12 * max(abs(lo), abs(up)):
                res.violation("bothSici-near-branch-switch" if near else "nesting:" + path,
                              "doubling n moves an original cell face by %.3g" % worst, params)
        except Exception:
            # explicit refusal (brentq cannot bracket the root next to the branch switch): allowed, counted
            refusals["nesting:" + path] = refusals.get("nesting:" + path, 0) + 1
        # translator validation: Float twin of the generated definition on the same inputs
        if path != "bothSici":
            root = recover_root(f, path, n, lo, up, gl, gu) if "Erf" in path else None
            if "Erf" in path and root is None:
                continue
            xs = [0.0, float(n)] + [r.uniform(0, n) for _ in range(4)]
            h = vlib.f2hex
            lines.append("c09 %s %s %s %s %s %s %s %s" % (path, h(n), h(lo), h(up), "-" if gl is None else h(gl),
                                                        "-" if gu is None else h(gu), "-" if root is None else h(root),
                                                        " ".join(h(x) for x in xs)))
            pend.append((path, params, xs, [float(f(x)) for x in xs], root))
    res.extra["path_hits"] = hits
    res.extra["explicit_refusals"] = refusals
    if getattr(res, "gen_error", None):
        res.broken("translator could not regenerate the model (fail-closed)", res.gen_error)
        return
    try:
        mo = vlib.lean_driver(lines) if lines else []
    except Exception as ex:
        res.broken("generated model does not build / run", str(ex)[-800:])
        return
    for (path, params, xs, want, root), m in zip(pend, mo):
        if m == "bad-op":
            res.broken("driver has no twin for path", path)
            continue
        got = [vlib.hex2f(t) for t in m.split()]
        d = abs(params["upper"] - params["lower"])
        tol = (1e-12 if "Erf" not in path else 1e-9) * max(1.0, abs(params["lower"]), abs(params["upper"]))
        if any(abs(a - b) > tol + 1e-12 * d for a, b in zip(got, want)):
            res.broken("Float twin of the generated definition differs from the Python (translator or source changed)",
                       {"path": path, "params": params, "python": want, "lean": got[: len(want)]})
        else:
            res.traces += 1


def check_make1d(res, r, n):
    e = eq_stub()
    for _ in range(n):
        k = r.randint(1, 40)
        a, b = r.uniform(-3, 3), r.uniform(-3, 3)
        if a == b:
            continue
        kind = r.choice(["lin", "cub", "nonmono"])
        if kind == "lin":
            fn = lambda i: a + (b - a) * i / k  # noqa
        elif kind == "cub":
            fn = lambda i: a + (b - a) * (i / k) ** 3  # noqa
        else:
            fn = lambda i: a + (b - a) * math.sin(3.0 * i / k)  # noqa
        faces = [fn(i) for i in range(k + 1)]
        mono = all(x < y for x, y in zip(faces, faces[1:])) or all(x > y for x, y in zip(faces, faces[1:]))
        res.case(key=("make1d", kind, k), nontrivial=True)
        try:
            g = e.make1dGrid(k, fn)
        except ValueError:
            if mono:
                res.violation("make1d-refuses", "make1dGrid refuses a strictly monotone face list", {"k": k, "a": a, "b": b, "kind": kind})
            continue
        if not mono:
            res.violation("make1d-accepts", "make1dGrid accepts a non-monotone face list", {"k": k, "a": a, "b": b, "kind": kind})
            continue
        ok = len(g) == 2 * k + 1 and all(g[2 * i] == faces[i] for i in range(k + 1)) and all(
            g[2 * i + 1] == 0.5 * (faces[i] + faces[i + 1]) for i in range(k))
        if not ok:
            res.violation("make1d-layout", "make1dGrid result is not faces at even and midpoints at odd positions",
                          {"k": k, "a": a, "b": b, "kind": kind})
        else:
            res.traces += 1


def check_grids(res, tier):
    """radial psi grid of real meshes: boundaries, shared segment boundaries, dx = face differences"""
    import gridlab

    specs = [gridlab.tokamak_spec("lsn", extract=["regions", "meshmeta", "eqinfo"]),
             gridlab.tokamak_spec("ldn", extract=["regions", "meshmeta", "eqinfo"]),
             gridlab.tokamak_spec("udn", extract=["regions", "meshmeta", "eqinfo"]),
             # a slightly disconnected double null gridded as a connected one: the two separatrix values differ, every segment boundary
             # must still be shared by the segments either side of it
             gridlab.tokamak_spec("udn", options={"nx_inter_sep": 0}, extract=["regions", "meshmeta", "eqinfo"]),
             gridlab.tokamak_spec("ldn", options={"nx_inter_sep": 0}, extract=["regions", "meshmeta", "eqinfo"]),
             gridlab.tokamak_spec("udn", options={"psinorm_sol": 1.1, "psinorm_sol_inner": 1.06}, extract=["regions", "meshmeta", "eqinfo"]),
             gridlab.tokamak_spec("ldn", options={"psinorm_sol": 1.1, "psinorm_sol_inner": 1.06}, extract=["regions", "meshmeta", "eqinfo"])]
    if tier == "thorough":
        specs += [gridlab.tokamak_spec("cdn", extract=["regions", "meshmeta", "eqinfo"]),
                  gridlab.tokamak_spec("udn", options={"nx_inter_sep": 2, "psi_spacing_separatrix_multiplier": 0.5}, extract=["regions", "meshmeta", "eqinfo"]),
                  gridlab.tokamak_spec("ldn", options={"nx_core": 5, "nx_sol": 4, "nx_inter_sep": 3}, extract=["regions", "meshmeta", "eqinfo"]),
                  gridlab.tokamak_spec("usn", options={"nx_core": 4}, extract=["regions", "meshmeta", "eqinfo"]),
                  gridlab.circular_spec(extract=["regions", "meshmeta"])]
    for g in gridlab.get(specs):
        name = g["spec"].get("geometry", "circular")
        if g["error"]:
            res.case(key=("grid-refused", name), nontrivial=False)
            continue
        regs = g["extras"]["regions"]
        info = g["extras"].get("eqinfo", {})
        res.case(key=("grid", name, str(sorted(g["spec"]["options"].items()))), nontrivial=True,
                 sample={"op": "radial grid of a real mesh", "grid": name})
        spec = {"spec": g["spec"]}
        ok = True
        for rid, rg in regs.items():
            pv = rg["psi_vals"]
            d = np.diff(pv)
            if not ((d > 0).all() or (d < 0).all()):
                res.violation("grid:mono", "psi_vals of region %s not strictly monotone" % rg["name"], spec)
                ok = False
            up = rg["connections"].get("upper")
            if up is not None:
                pu = np.array(regs[up]["psi_vals"], dtype=float)
                pw = np.array(pv, dtype=float)
                if len(pu) != len(pw) or np.max(np.abs(pu - pw)) > 1e-12 * max(1.0, float(np.max(np.abs(pw)))):
                    dmax = float(np.max(np.abs(pu[:min(len(pu), len(pw))] - pw[:min(len(pu), len(pw))])))
                    res.violation("grid:y-neighbour", "regions %s and %s are joined in y but have different radial psi grids (max difference %.3g)" % (
                        rg["name"], regs[up]["name"], dmax), spec)
            out = rg["connections"]["outer"]
            if out is not None and abs(regs[out]["psi_vals"][0] - pv[-1]) > 1e-12 * max(1, abs(pv[-1])):
                res.violation("grid:shared", "adjoining radial segments %s / %s do not share their boundary value (%r vs %r)" % (
                    rg["name"], regs[out]["name"], pv[-1], regs[out]["psi_vals"][0]), spec)
                ok = False
        # boundary values: separatrix faces equal psi at the X-points; outer/inner limits equal the requested psi
        seps = info.get("psi_sep", [])
        for rid, rg in regs.items():
            pv = rg["psi_vals"]
            for end, nb in ((0, "inner"), (-1, "outer")):
                if "core" in rg["name"] and rg["connections"][nb] is not None and seps:
                    dist = min(abs(pv[end] - s) for s in seps)
                    if dist > 1e-10 * max(1.0, abs(pv[end])):
                        res.violation("grid:sep", "segment boundary of %s is %.3g away from every separatrix psi" % (rg["name"], dist), spec)
                        ok = False
        # dx = psi difference between the x-faces of each cell; psixy at xlow are the faces
        v = g["vars"]
        if "psixy_xlow" in v:
            faces = v["psixy_xlow"]
            dxc = v["dx"]
            psic = v["psixy"]
            nx = dxc.shape[0]
            err = np.nanmax(np.abs(faces[1:nx, :] - faces[0:nx - 1, :] - dxc[0:nx - 1, :])) if nx > 1 else 0.0
            mid = np.nanmax(np.abs(0.5 * (faces[1:nx, :] + faces[0:nx - 1, :]) - psic[0:nx - 1, :])) if nx > 1 else 0.0
            if err > 1e-12 or mid > 1e-10:
                res.violation("grid:dx", "dx differs from the psi difference of the x-faces by %.3g (centre-midpoint %.3g)" % (err, mid), spec)
                ok = False
        if ok:
            res.traces += 1


def check_segments(res, tier):
    """the radial segments the real describeSingleNull / describeDoubleNull hand to segmentsWithPsivals: every segment end that lies on a
    separatrix carries a gradient, all ends on one separatrix carry the same one (the spacing function has the same gradient on both sides),
    and the constructed function of each segment realises its requested end values and gradients"""
    from props import c08_stub
    from hypnotoad.cases import tokamak

    cap = []
    orig = tokamak.TokamakEquilibrium.segmentsWithPsivals

    def wrapped(self, segments):
        cap.append({k: dict(v) for k, v in segments.items()})
        return orig(self, segments)

    cases = [("lsn", 0.5, 1), ("udn", 0.5, 1), ("ldn", 0.25, 2), ("cdn", 0.5, 0), ("udn", 1.0, 1)]
    if tier == "thorough":
        cases += [(k, m, n) for k in ("usn", "udn", "ldn") for m in (2.0, 0.1) for n in (1, 3)] + [("cdn", 2.0, 0), ("lsn", 1.0, 1)]
    tokamak.TokamakEquilibrium.segmentsWithPsivals = wrapped
    try:
        for kind, mult, nis in cases:
            opts = dict(nx_core=3, nx_sol=4, nx_pf=2, ny_inner_divertor=3, ny_outer_divertor=4, ny_sol=8, finecontour_Nfine=40,
                        psi_spacing_separatrix_multiplier=mult)
            if kind in ("udn", "ldn"):
                opts.update(nx_inter_sep=nis, psinorm_sol=1.2)
            del cap[:]
            try:
                eq = c08_stub.get_equilibrium(kind, opts)
            except Exception as e:  # explicit refusal
                res.case(key=("segments-refused", kind, type(e).__name__), nontrivial=False)
                continue
            payload = {"kind": kind, "options": opts}
            res.case(key=("segments", kind, mult, nis), nontrivial=True, sample={"op": "segments of describe*", "kind": kind,
                                                                                 "psi_spacing_separatrix_multiplier": mult, "nx_inter_sep": nis})
            ok = True
            for segs in cap:
                ends = []  # (psi value, gradient, segment, which end)
                for name, sg in segs.items():
                    ends.append((sg["psi_start"], sg.get("grad_start"), name, "start"))
                    ends.append((sg["psi_end"], sg.get("grad_end"), name, "end"))
                for s in set(eq.psi_sep):
                    at = [e for e in ends if e[0] == s]
                    if len(at) < 2:
                        continue
                    gs = [e[1] for e in at]
                    if any(g is None for g in gs):
                        res.violation("segments:no-gradient", "%s: segment %s has no gradient prescribed at its %s on the separatrix psi=%r" % (
                            (kind,) + next((e[2], e[3]) for e in at if e[1] is None) + (s,)), payload)
                        ok = False
                    elif max(gs) - min(gs) > 1e-12 * max(abs(g) for g in gs):
                        res.violation("segments:gradient-jump", "%s (psi_spacing_separatrix_multiplier=%r, nx_inter_sep=%r): the spacing gradients prescribed on the "
                                      "two sides of the separatrix psi=%r differ: %s" % (kind, mult, nis, s, ", ".join("%s.%s=%.6g" % (e[2], e[3], e[1]) for e in at)), payload)
                        ok = False
                for name, sg in segs.items():
                    fn = call_impl(eq, sg["nx"], sg["psi_start"], sg["psi_end"], sg.get("grad_start"), sg.get("grad_end"))
                    if not callable(fn):
                        continue
                    path = classify(sg["nx"], sg["psi_start"], sg["psi_end"], sg.get("grad_start"), sg.get("grad_end"))
                    for b in oracle(eq, fn, sg["nx"], sg["psi_start"], sg["psi_end"], sg.get("grad_start"), sg.get("grad_end"), path):
                        if b[0] != "REFUSED":
                            res.violation("segments:" + b[0], "%s segment %s: %s" % (kind, name, b[1]), payload)
                            ok = False
            if ok:
                res.traces += 1
        # --- limits requested as unnormalised psi values, including a value of exactly 0.0 (psi shifted by a constant so that the wanted
        #     surface is psi = 0): the segment must start / end exactly at the requested value
        ex = os.path.join(vlib.REPO, "examples", "tokamak")
        if ex not in sys.path:
            sys.path.insert(0, ex)
        import tokamak_example

        wall = [(1.25, -0.45), (1.25, 0.45), (1.75, 0.45), (1.75, -0.45)]
        lim_cases = [("lsn", "psi_sol", "sol", "psi_end", 1.15), ("lsn", "psi_core", "core", "psi_start", 0.85), ("lsn", "psi_pf_lower", "lower_pf", "psi_start", 0.92),
                     ("cdn", "psi_sol_inner", "inner_sol", "psi_end", 1.07), ("cdn", "psi_pf_upper", "upper_pf", "psi_start", 0.93)]
        for geo, opt, seg, end, pn in lim_cases:
            r1, z1, p2, p1 = tokamak_example.create_tokamak(geometry=geo)
            base = dict(nx_core=3, nx_sol=4, nx_pf=3, ny_inner_divertor=3, ny_outer_divertor=4, ny_sol=8, finecontour_Nfine=40)
            try:
                with warnings.catch_warnings(), contextlib.redirect_stdout(io.StringIO()):
                    warnings.simplefilter("ignore")
                    e0 = tokamak.TokamakEquilibrium(r1, z1, p2.copy(), p1.copy(), [], settings=dict(base), wall=wall)
                target = float(e0.psi_axis + pn * (e0.psi_sep[0] - e0.psi_axis))
                for shift, label in ((0.0, "as given"), (target, "psi shifted so that the limit is exactly 0.0")):
                    want = target - shift
                    del cap[:]
                    with warnings.catch_warnings(), contextlib.redirect_stdout(io.StringIO()):
                        warnings.simplefilter("ignore")
                        tokamak.TokamakEquilibrium(r1, z1, p2 - shift, p1 - shift, [], settings=dict(base, **{opt: want}), wall=wall)
                    res.case(key=("limit", geo, opt, label), nontrivial=True, sample={"op": "explicit psi limit", "geometry": geo, "option": opt, "value": want})
                    got = [sg[seg][end] for sg in cap if seg in sg]
                    if not got:
                        res.broken("segment %s not found among the segments handed to segmentsWithPsivals" % seg, {"geometry": geo})
                    elif any(g != want for g in got):
                        res.violation("segments:limit-ignored", "%s with %s=%r (%s): segment %s has %s=%r" % (geo, opt, want, label, seg, end, got[0]),
                                      {"geometry": geo, "option": opt, "value": want, "psi_shift": shift})
                    else:
                        res.traces += 1
            except Exception as e:  # explicit refusal
                res.case(key=("limit-refused", geo, opt, type(e).__name__), nontrivial=False)
                res.extra.setdefault("limit_refused", []).append([geo, opt, "%s: %s" % (type(e).__name__, str(e)[:120])])
    finally:
        tokamak.TokamakEquilibrium.segmentsWithPsivals = orig


def run(res, tier):
    r = vlib.rng("c09")
    res.rule = ("random (n in 1..200, both orderings of lower/upper, end-gradient ratios 0.05..20 of the mean gradient, a quarter within "
                "1e-12..1e-2 of the branch switches) -> real getSmoothMonotonicGridFunc: end values, strict monotonicity on faces+centres, "
                "end gradients, 2n-nesting; Float twin of the GENERATED Lean definition evaluated on the same inputs (translator "
                "validation); make1dGrid layout/guard; radial grids of real meshes. non-trivial = non-linear path; distinct by "
                "(path, n, magnitudes, gradient ratios)")
    res.trusted += ["scipy.optimize.brentq (root enters the model as a parameter, its residual is bounded by the check), scipy.special.erf/sici",
                    "the py2lean translator: validated on every run by executing the Float twin of each generated definition against the Python"]
    check_functions(res, r, 1500 if tier == "quick" else 60000)
    check_make1d(res, r, 200 if tier == "quick" else 5000)
    check_grids(res, tier)
    check_segments(res, tier)


def replay(rep):
    p = rep["payload"]
    if "n" not in p:
        print("REPLAY: grid-level: rebuild payload['spec'] with py/gridlab.py")
        return 1
    e = eq_stub()
    f = call_impl(e, p["n"], p["lower"], p["upper"], p["grad_lower"], p["grad_upper"])
    path = classify(p["n"], p["lower"], p["upper"], p["grad_lower"], p["grad_upper"])
    bad = [b for b in oracle(e, f, p["n"], p["lower"], p["upper"], p["grad_lower"], p["grad_upper"], path) if b[0] != "REFUSED"]
    for item in bad:
        print("REPLAY:", item[0], item[1])
    return 1 if bad else 0
