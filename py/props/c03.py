"""C03 — field and profile values at grid points agree with the equilibrium.
Direct oracle on real grids: Brxy, Bzxy against central differences of the interpolated psi, |Bpxy|, one sign equal to the sign of
Bp along increasing y, Btxy = fpol(psi)/R, Bxy, pressure = profile(psi) reflected about the leg's own separatrix, scalars;
equilibrium-level checks of the profile extrapolation.  Lean model: HypnoModel/Model/Profiles.lean (sign decision, reflection,
extrapolation), tied by the driver op c03."""
import contextlib
import io
import os
import sys
import warnings

import numpy as np

import vlib


def specs(tier):
    import gridlab

    ex = ["fieldpts", "profiles", "bpsign", "meshmeta", "regions"]
    S = [gridlab.tokamak_spec("lsn", fpol="linear", pressure="parab", extract=ex),
         gridlab.tokamak_spec("ldn", fpol="linear", pressure="parab", extract=ex),
         gridlab.tokamak_spec("udn", fpol="linear", pressure="parab", extract=ex),
         # the analytic circular family with a sheared safety factor q(r) = a0 + a1 r^2
         gridlab.circular_spec(options={"number_of_processors": 1, "R0": 2.3, "B0": 3.2, "q_coefficients": [1.5, 2.0],
                                        "r_inner": 0.3, "r_outer": 0.9, "nx": 5, "ny": 12}, extract=ex)]
    # nearly connected double nulls in small flux units (the two separatrix values differ by 5e-4 and 8e-4): which X-point is primary must
    # not depend on the unit of psi; gridded as connected (nx_inter_sep = 0)
    S.append(gridlab.tokamak_spec("udn", options={"nx_inter_sep": 0}, fpol="linear", pressure="parab", psi_sign=0.1, extract=ex))
    S.append(gridlab.tokamak_spec("udn", options={"nx_inter_sep": 0, "psi_divide_twopi": True}, fpol="linear", pressure="parab", extract=ex))
    # the sign options: Btxy and the scalar Bt_axis must reverse together
    S.append(gridlab.tokamak_spec("lsn", options={"reverse_Bt": True}, fpol="linear", pressure="parab", extract=ex))
    # a grid on which no two options that could be confused coincide (see gridlab.odd_spec)
    S.append(gridlab.odd_spec("lsn", True, extract=ex))
    if tier == "thorough":
        S += [gridlab.tokamak_spec("cdn", fpol="linear", pressure="parab", options={"orthogonal": False}, extract=ex),
              gridlab.tokamak_spec("usn", fpol="negconst", pressure="parab", extract=ex),
              gridlab.tokamak_spec("lsn", fpol="linear", pressure="parab", psi_sign=-1.0, extract=ex),
              gridlab.tokamak_spec("ldn", fpol="linear", pressure="parab", options={"psi_interpolation_method": "dct"}, extract=ex),
              gridlab.tokamak_spec("lsn", fpol="linear", pressure="parab", options={"reverse_current": True}, extract=ex),
              gridlab.tokamak_spec("lsn", fpol="linear", pressure="parab", options={"reverse_Bt": True}, extract=ex)]
    return S


def gname(g):
    s = g["spec"]
    o = s.get("options", {})
    return "%s%s%s%s" % (s.get("geometry"), "" if o.get("orthogonal", True) else "-nonorth", "" if s.get("psi_sign", 1.0) > 0 else "-psineg",
                         "".join("-" + k for k in ("reverse_current", "reverse_Bt", "psi_divide_twopi") if o.get(k)))


def oracle_grid(res, g):
    v, fp, pr = g["vars"], g["extras"]["fieldpts"], g["extras"]["profiles"]
    name = gname(g)
    spec = {"spec": g["spec"]}
    bad = []
    R = v["Rxy"]
    gs = np.nanmax(np.sqrt(fp["psiR"] ** 2 + fp["psiZ"] ** 2) / R)
    e1 = np.nanmax(np.abs(v["Brxy"] - fp["psiZ"] / R)) / gs
    e2 = np.nanmax(np.abs(v["Bzxy"] + fp["psiR"] / R)) / gs
    if e1 > 1e-6 or e2 > 1e-6:
        bad.append(("BrBz", "Brxy/Bzxy differ from (dpsi/dZ)/R, -(dpsi/dR)/R of the interpolated psi by %.3g / %.3g of the field scale" % (e1, e2)))
    e3 = np.nanmax(np.abs(np.abs(v["Bpxy"]) - np.sqrt(v["Brxy"] ** 2 + v["Bzxy"] ** 2))) / gs
    if e3 > 1e-12:
        bad.append(("Bpabs", "|Bpxy| differs from sqrt(Brxy^2+Bzxy^2) by %.3g" % e3))
    sg = np.sign(v["Bpxy"][np.isfinite(v["Bpxy"])])
    if not (np.all(sg > 0) or np.all(sg < 0)):
        bad.append(("Bpsign-mixed", "Bpxy does not have one sign over the whole grid"))
    else:
        # sign of Bp along increasing y, measured on the grid itself
        Ry, Zy = v["Rxy_ylow"], v["Zxy_ylow"]
        meta = g["extras"]["meshmeta"]
        votes = []
        for rid, (sx, sy) in meta["region_indices"].items():
            if sy.stop - sy.start < 2:
                continue
            ys = slice(sy.start, sy.stop - 1)
            dR = Ry[sx, sy.start + 1:sy.stop] - Ry[sx, ys]
            dZ = Zy[sx, sy.start + 1:sy.stop] - Zy[sx, ys]
            dot = v["Brxy"][sx, ys] * dR + v["Bzxy"][sx, ys] * dZ
            votes.append(np.sign(dot).ravel())
        votes = np.concatenate(votes)
        if not (np.all(votes == sg[0])):
            bad.append(("Bpsign-direction", "sign of Bpxy (%+d) is not the sign of Bp along increasing y at %d of %d cells" % (
                int(sg[0]), int((votes != sg[0]).sum()), votes.size)))
    e4 = np.nanmax(np.abs(v["Btxy"] - fp["f"] / R)) / max(1e-300, np.nanmax(np.abs(v["Btxy"])))
    if e4 > 1e-12:
        bad.append(("Bt", "Btxy differs from fpol(psi)/R by %.3g" % e4))
    e5 = np.nanmax(np.abs(v["Bxy"] - np.sqrt(v["Bpxy"] ** 2 + v["Btxy"] ** 2)) / v["Bxy"])
    if e5 > 1e-12:
        bad.append(("Btot", "Bxy differs from sqrt(Bpxy^2+Btxy^2) by %.3g" % e5))
    if "pressure" in v and "expected_pressure" in pr:
        pe = pr["expected_pressure"]
        sc = np.nanmax(np.abs(pe))
        err = np.abs(v["pressure"] - pe) / sc
        if np.nanmax(err) > 1e-10:
            i = np.unravel_index(np.nanargmax(err), err.shape)
            meta = g["extras"]["meshmeta"]
            rid = [k for k, (sx, sy) in meta["region_indices"].items() if sx.start <= i[0] < sx.stop and sy.start <= i[1] < sy.stop][0]
            bad.append(("pressure:" + pr["regions"][rid]["kind"], "pressure differs from the input profile at (reflected) psi by %.3g of its range in "
                        "region %s: file %r, expected %r" % (np.nanmax(err), pr["regions"][rid]["name"], float(v["pressure"][i]), float(pe[i]))))
    elif "expected_pressure" in pr:
        bad.append(("pressure-missing", "a pressure profile was given but the grid file has no pressure"))
    # scalars (tokamak equilibria: the circular family has neither an X-point nor a tabulated axis value)
    if "psi_axis" not in v or "psi_at_o" not in pr:
        for wid, msg in bad:
            res.violation(wid, msg + " [" + name + "]", spec)
        return not bad
    if abs(float(v["psi_axis"]) - pr["psi_at_o"]) > 1e-12 * max(1, abs(pr["psi_at_o"])) or max(abs(x) for x in pr["grad_at_o"]) > 2e-3 * pr["o_point"][0]:
        bad.append(("psi_axis", "psi_axis is not psi at a point where grad psi vanishes (|grad| = %.3g)" % max(abs(x) for x in pr["grad_at_o"])))
    # find_critical accepts an X-point when Br^2 + Bz^2 < xpoint_refine_atol (1e-6), i.e. |grad psi| < R * 1e-3
    if abs(float(v["psi_bdry"]) - pr["psi_at_x"]) > 1e-12 * max(1, abs(pr["psi_at_x"])) or max(abs(x) for x in pr["grad_at_x"]) > 2e-3 * pr["x_point"][0]:
        bad.append(("psi_bdry", "psi_bdry is not psi at a point where grad psi vanishes (|grad| = %.3g)" % max(abs(x) for x in pr["grad_at_x"])))
    # the primary X-point is the one whose psi is nearest to the axis value, whatever the unit of psi
    allx = pr.get("psi_at_all_x") or []
    if len(allx) > 1:
        prim = min(allx, key=lambda p: abs(p - pr["psi_at_o"]))
        if abs(float(v["psi_bdry"]) - prim) > 1e-12 * max(1, abs(prim)):
            bad.append(("psi_bdry-not-primary", "psi_bdry = %r is not psi at the X-point nearest in psi to the axis (psi at the X-points kept: %r, psi_axis = %r)"
                        % (float(v["psi_bdry"]), allx, pr["psi_at_o"])))
    if abs(float(v["Bt_axis"]) - pr["fpol_axis"] / pr["o_point"][0]) > 1e-12 * abs(float(v["Bt_axis"])):
        bad.append(("Bt_axis", "Bt_axis differs from fpol(psi_axis)/R_axis"))
    for wid, msg in bad:
        res.violation(wid, msg + " [" + name + "]", spec)
    return not bad


def extrapolation(res, r, n):
    """extrapolate_profiles: the extended pressure continues the profile continuously (value and slope) at its last point"""
    from hypnotoad import tokamak

    ex = os.path.join(vlib.REPO, "examples", "tokamak")
    if ex not in sys.path:
        sys.path.insert(0, ex)
    import tokamak_example

    for k in range(n):
        geo = ["lsn", "ldn", "cdn"][k % 3]
        r1, z1, p2, p1 = tokamak_example.create_tokamak(geometry=geo)
        nf = len(p1)
        t = np.linspace(0, 1, nf)
        pedge = r.choice([1.0, 10.0, 200.0])
        pressure = 1.0e3 * (1 - t) ** 2 + pedge * (1.0 + 0.5 * (1 - t))
        fpol = 2.5 + 0.3 * t
        # the profile grid ends inside the domain: psi1D runs from the axis value to about psinorm = 1
        psi_ax, psi_sep = p1[0], None
        # unnormalised flux at the SOL boundary, beyond the end of the profile grid (psi_sol_inner left unset in half of the cases)
        psi_out = float(p1[-1] + 0.2 * (p1[-1] - p1[0]))
        opts = dict(extrapolate_profiles=True, psi_sol=psi_out)
        if k % 2 == 0:
            opts["psi_sol_inner"] = float(p1[-1] + 0.1 * (p1[-1] - p1[0]))
        payload = {"geometry": geo, "edge_pressure": pedge}
        res.case(key=("extrap", geo, pedge), nontrivial=True, sample={"op": "extrapolate_profiles", **payload})
        try:
            with warnings.catch_warnings(), contextlib.redirect_stdout(io.StringIO()):
                warnings.simplefilter("ignore")
                eq = tokamak.TokamakEquilibrium(r1, z1, p2.copy(), p1.copy(), fpol.copy(), pressure=pressure.copy(), make_regions=False, settings=opts)
        except Exception as ex2:
            res.violation("extrapolate-raises", "extrapolate_profiles=True with a pressure profile fails: %s: %s" % (type(ex2).__name__, str(ex2)[:150]), payload)
            continue
        plast = pressure[-1]
        dp = (pressure[-1] - pressure[-2]) / (p1[-1] - p1[-2])
        d = 1e-3 * abs(p1[-1] - p1[0])
        out = p1[-1] + np.sign(p1[-1] - p1[0]) * d
        pin, pout = float(eq.pressure(p1[-1])), float(eq.pressure(out))
        lin = plast + dp * (out - p1[-1])
        if abs(pin - plast) > 1e-9 * abs(plast) or abs(pout - lin) > 0.05 * abs(plast) + 5 * abs(dp) * d:
            res.violation("extrapolate-discontinuous",
                          "extrapolated pressure is not continuous at the end of the profile: p(last)=%.6g, just outside %.6g, linear continuation %.6g" % (
                              plast, pout, lin), payload)
        else:
            res.traces += 1


def pre(res):
    from gen import gen_geom1, gen_fields

    try:
        c1 = gen_geom1.main()
        c2 = gen_fields.main()
        res.extra["generated"] = {"files": ["lean/HypnoModel/Gen/Geom1.lean", "lean/HypnoModel/Gen/Fields.lean"], "changed_since_last_run": bool(c1 or c2)}
    except Exception as e:
        res.extra["generated"] = {"error": "%s: %s" % (type(e).__name__, e)}
        res.gen_error = "%s: %s" % (type(e).__name__, e)


def geom1_twin(res, grids, r):
    """the generated geometry1 formulas, executed over Float by the driver, against the values the real code wrote"""
    lines, want = [], []
    for g in grids:
        if g["error"]:
            continue
        v = g["vars"]
        nx, ny = v["Rxy"].shape
        for _ in range(40):
            i, j = r.randrange(nx), r.randrange(ny)
            for suf in ("", "_xlow", "_ylow"):
                br, bz, bp, bt, b = (float(v[n + suf][i, j]) for n in ("Brxy", "Bzxy", "Bpxy", "Btxy", "Bxy"))
                lines.append("c03g %s %s %s %s" % tuple(vlib.f2hex(t) for t in (br, bz, bp, bt)))
                want.append((abs(bp), b, gname(g), suf, i, j))
    if not lines:
        return
    mo = vlib.lean_driver(lines)
    for ln, (wbp, wb, name, suf, i, j), m in zip(lines, want, mo):
        res.case(key=("geom1", name, suf), nontrivial=True)
        gbp, gb = (vlib.hex2f(t) for t in m.split())
        if abs(gbp - wbp) > 4e-16 * abs(wbp) or abs(gb - wb) > 4e-16 * abs(wb):   # (numpy's vectorised square/sqrt differ by an ulp from scalar C)
            res.broken("generated geometry1 formulas (Float twin) differ from the written Bpxy/Bxy", {"grid": name, "loc": suf, "cell": [i, j], "model": [gbp, gb], "file": [wbp, wb]})
            return
    res.traces += len(lines)


def run(res, tier):
    import gridlab

    r = vlib.rng("c03")
    res.rule = ("real grids with non-constant fpol and a pressure profile (lsn, ldn, udn; thorough: non-orthogonal, dct, sign reversals): "
                "every field at every cell centre against central differences of the interpolated psi / the profile splines, the sign of Bpxy "
                "against the measured direction of increasing y at every cell, pressure against the profile at psi reflected about the leg's own "
                "separatrix, scalars against the critical points; extrapolate_profiles on three families x three edge pressures. "
                "distinct by (grid) / (family, edge pressure)")
    res.trusted += ["scipy InterpolatedUnivariateSpline for fpol and pressure (evaluated through the equilibrium's own methods)"]
    grids = gridlab.get(specs(tier))
    geom1_twin(res, grids, r)
    for g in grids:
        name = gname(g)
        if g["error"]:
            res.case(key=("grid-refused", name, g["error"][0]), nontrivial=False)
            res.extra.setdefault("refused", []).append([name, g["error"][0], g["error"][1][:300]])
            continue
        res.case(key=("grid", name), nontrivial=True, sample={"grid": name})
        if oracle_grid(res, g):
            res.traces += 1
    extrapolation(res, r, 9 if tier == "quick" else 30)
    model_ops(res, r, 300 if tier == "quick" else 5000)


def model_ops(res, r, n):
    """correspondence of the hand-written Lean model (sign decision, reflection, extrapolation) with the same decisions taken here"""
    lines, want = [], []
    for _ in range(n):
        k = r.random()
        if k < 0.4:
            dot = r.choice([-1, 1]) * 10 ** r.uniform(-6, 1)
            bps = r.choice([-1.0, 1.0])
            lines.append("c03s %s %s" % (vlib.f2hex(dot), vlib.f2hex(bps)))
            # geometry1: Bp negated iff dot < 0; raises iff the two signs disagree
            if dot < 0:
                want.append("raise" if bps > 0 else "ok -1")
            else:
                want.append("raise" if bps < 0 else "ok 1")
        else:
            leg, psi = r.uniform(-1, 1), r.uniform(-1, 1)
            sg = r.choice([-1.0, 1.0])
            lines.append("c03r %s %s %s" % (vlib.f2hex(leg), vlib.f2hex(sg), vlib.f2hex(psi)))
            want.append(vlib.f2hex(leg + sg * abs(psi - leg)))
    try:
        mo = vlib.lean_driver(lines)
    except Exception as ex:
        res.broken("model driver failed", str(ex)[-500:])
        return
    for ln, w, m in zip(lines, want, mo):
        res.case(key=ln, nontrivial=True)
        if w != m.strip():
            res.broken("Lean model of the sign decision / reflection differs", {"op": ln, "expected": w, "model": m})
        else:
            res.traces += 1


def replay(rep):
    import gridlab

    p = rep["payload"]
    if "spec" not in p:
        print("REPLAY: equilibrium-level case", p)
        return 1
    g = gridlab.get([p["spec"]])[0]
    r = vlib.Result("C03", "quick")
    ok = (not g["error"]) and oracle_grid(r, g)
    for wid, what, _ in r.violations:
        print("REPLAY:", wid, what)
    return 0 if ok else 1
