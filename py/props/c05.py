"""C05 — hy and poloidal_distance are arc lengths along flux surfaces.
Hand-written Lean model HypnoModel/Model/Distance.lean (hyCentre, hyYlowInner, chainPD) tied to MeshRegion.calcHy /
calcPoloidalDistance by replaying, through the driver, the folds on the contour distance lists extracted in-process from real grids;
direct oracle on the written file (arc-length bounds from the grid points, strict increase and continuity along every chain,
circumference, circle exactness, Nfine convergence order)."""
import math

import numpy as np

import vlib


def specs(tier):
    import gridlab

    ex = ["contours", "meshmeta", "regions"]
    S = [gridlab.tokamak_spec("lsn", extract=ex),
         gridlab.tokamak_spec("cdn", options={"orthogonal": False}, extract=ex),
         gridlab.circular_spec(options={"poloidal_spacing_method": "linear", "finecontour_Nfine": 200}, extract=ex),
         # poloidal resolution not mirror-symmetric about the X-point where the core y-group closes
         gridlab.tokamak_spec("cdn", options={"ny_inner_sol": 4, "ny_outer_sol": 6}, extract=ex),
         # a coarse FineContour extended only a little past the targets: the outermost boundary cells depend on how the extension ends
         gridlab.tokamak_spec("lsn", options={"finecontour_Nfine": 22, "finecontour_extend_prefactor": 1.5, "ny_inner_divertor": 8, "ny_outer_divertor": 10}, extract=ex)]
    # poloidal cells smaller than the FineContour spacing (ny = 64 half-cells of 1/128 of the circumference against 100 fine points)
    S.append(gridlab.circular_spec(options={"number_of_processors": 1, "ny": 64, "nx": 2, "R0": 1.0}, extract=ex))
    # geometry() called twice on the same mesh (every "write grid" of the GUI does): same arrays as after one call (compared in run())
    S.append(gridlab.tokamak_spec("lsn", extract=ex, geometry_twice=True))
    S.append(gridlab.circular_spec(options={"poloidal_spacing_method": "linear", "finecontour_Nfine": 200}, extract=ex, geometry_twice=True))
    # a grid on which no two options that could be confused coincide (see gridlab.odd_spec)
    S.append(gridlab.odd_spec("lsn", True, extract=ex))
    if tier == "thorough":
        S += [gridlab.tokamak_spec("ldn", extract=ex), gridlab.tokamak_spec("udn", options={"orthogonal": False}, extract=ex),
              gridlab.tokamak_spec("usn", options={"y_boundary_guards": 2}, extract=ex),
              gridlab.tokamak_spec("lsn", options={"orthogonal": False, "ny_outer_divertor": 9, "ny_sol": 12, "ny_inner_divertor": 6}, extract=ex),
              gridlab.circular_spec(options={"poloidal_spacing_method": "linear", "finecontour_Nfine": 400}, extract=ex)]
    if tier == "thorough":
        S.append(gridlab.odd_spec("cdn", False, extract=ex))
    return S


def gname(g):
    s = g["spec"]
    o = s.get("options", {})
    return "%s%s%s" % (s.get("geometry", "circular"), "" if o.get("orthogonal", True) else "-nonorth",
                       "-Nfine%d-ny%s" % (o.get("finecontour_Nfine", 100), o.get("ny", "")) if s.get("case") == "circular" else "")


def region_arrays(g, name, rid):
    sx, sy = g["extras"]["meshmeta"]["region_indices"][rid]
    v = g["vars"]
    return {loc: v[name if loc == "centre" else name + "_" + loc][sx, sy] for loc in ("centre", "xlow", "ylow") if (name if loc == "centre" else name + "_" + loc) in v}


def oracle(res, g):
    v = g["vars"]
    name = gname(g)
    spec = {"spec": g["spec"]}
    C = g["extras"]["contours"]
    meta = g["extras"]["meshmeta"]
    bad = []
    hy, dy = v["hy"], v["dy"]
    if not (np.nanmin(hy) > 0 and np.nanmin(v["hy_ylow"]) > 0 and np.nanmin(v["hy_xlow"]) > 0):
        bad.append(("hy-positive", "hy is not strictly positive everywhere"))
    # arc length between the y-faces of a cell: bounded below by the chord through the centre, above by a few per cent more
    Rc, Zc, Ry, Zy = v["Rxy"], v["Zxy"], v["Rxy_ylow"], v["Zxy_ylow"]
    lo, hi = 0.0, 0.0
    for rid, (sx, sy) in meta["region_indices"].items():
        if sy.stop - sy.start < 2:
            continue
        ys = slice(sy.start, sy.stop - 1)
        c2 = (np.hypot(Rc[sx, ys] - Ry[sx, ys], Zc[sx, ys] - Zy[sx, ys]) +
              np.hypot(Ry[sx, sy.start + 1:sy.stop] - Rc[sx, ys], Zy[sx, sy.start + 1:sy.stop] - Zc[sx, ys]))
        arc = hy[sx, ys] * dy[sx, ys]
        lo = max(lo, float(np.nanmax(c2 / arc - 1.0)))
        hi = max(hi, float(np.nanmax(arc / c2 - 1.0)))
    res.extra.setdefault("arc_vs_chord", {})[name] = {"chord_exceeds_arc_by": lo, "arc_exceeds_chord_by": hi}
    # hy is measured on the FineContour polyline, whose own chord error is second order in the fine spacing (proved for circles:
    # relative error < (turning angle per fine segment)^2/24); allow for it with the number of fine points in use
    nfine = g["spec"].get("options", {}).get("finecontour_Nfine", 100)
    if lo > 8.0 / nfine ** 2:
        bad.append(("hy-shorter-than-chord", "hy*dy is shorter than the two-chord length through the cell centre by %.3g (relative)" % lo))
    if hi > 0.1:
        bad.append(("hy-longer-than-arc", "hy*dy exceeds the two-chord length through the cell centre by %.3g (relative)" % hi))
    # arc length between the two cell centres either side of a y-face (including the faces on region joins and the one that closes a
    # periodic core): hy_ylow*dy is bounded below by the two chords centre - face - centre and exceeds them by at most a few per cent
    hyl = v["hy_ylow"]
    lo2, hi2, where2 = 0.0, 0.0, None
    for chain in C["y_groups"]:
        first = C["regions"][chain[0]]
        periodic = first["connections"]["lower"] is not None
        for xi in range(first["nx"]):
            cen, fac = [], []      # centres and the faces *below* them, along the chain
            for rid in chain:
                sx, sy = meta["region_indices"][rid]
                x = sx.start + xi
                for y in range(sy.start, sy.stop):
                    cen.append((Rc[x, y], Zc[x, y]))
                    fac.append((Ry[x, y], Zy[x, y], hyl[x, y] * dy[x, y], rid, y))
            n = len(cen)
            for k in range(n):
                if k == 0 and not periodic:
                    continue          # a target: no cell below
                pc = cen[k - 1]       # k = 0 on a periodic chain: the last centre
                fr, fz, arc, rid, y = fac[k]
                c2 = np.hypot(fr - pc[0], fz - pc[1]) + np.hypot(cen[k][0] - fr, cen[k][1] - fz)
                if not np.isfinite(arc) or not np.isfinite(c2) or c2 == 0:
                    continue
                if c2 / arc - 1.0 > lo2:
                    lo2, where2 = float(c2 / arc - 1.0), (rid, xi, y)
                if arc / c2 - 1.0 > hi2:
                    hi2, where_hi = float(arc / c2 - 1.0), (rid, xi, y)
    res.extra.setdefault("arc_vs_chord_ylow", {})[name] = {"chord_exceeds_arc_by": lo2, "arc_exceeds_chord_by": hi2}
    if lo2 > 8.0 / nfine ** 2 + 0.02:
        bad.append(("hy-ylow-shorter-than-chord", "hy_ylow*dy is shorter than the two chords between the neighbouring cell centres through the face by %.3g (relative) at region %s, x=%d, y=%d"
                    % ((lo2,) + where2)))
    if hi2 > 0.15:
        bad.append(("hy-ylow-longer-than-arc", "hy_ylow*dy exceeds the two chords between the neighbouring cell centres through the face by %.3g (relative) at region %s, x=%d, y=%d"
                    % ((hi2,) + where_hi)))
    # poloidal_distance along every chain of y-connected regions: strictly increasing, continuous across joins, from 0 at the chain start
    pd_c, pd_y = v["poloidal_distance"], v["poloidal_distance_ylow"]
    for chain in C["y_groups"]:
        first = C["regions"][chain[0]]
        periodic = first["connections"]["lower"] is not None
        for xi in range(first["nx"]):
            seq = []  # alternating face, centre, face, centre … along the chain
            for rid in chain:
                sx, sy = meta["region_indices"][rid]
                x = sx.start + xi
                for y in range(sy.start, sy.stop):
                    seq += [pd_y[x, y], pd_c[x, y]]
            seq = np.array(seq)
            if not (np.diff(seq) > 0).all():
                k = int(np.argmin(np.diff(seq)))
                bad.append(("pd-not-increasing", "poloidal_distance is not strictly increasing along the chain %s at radial index %d (position %d: %r -> %r)" % (
                    chain, xi, k, seq[k], seq[k + 1])))
                break
            # continuity: the step over a join is the sum of the two adjacent half cells (no jump): compare with neighbours' steps via hy
            steps = np.diff(seq)
            # expected steps from hy: face->centre and centre->face are half a cell each (to first order); a jump shows as an outlier
            med = np.median(steps)
            if steps.max() > 50 * med and len(chain) > 1:
                pass  # very unequal spacing is legitimate; the exact test is the correspondence below
    # total_poloidal_distance = circumference on closed surfaces
    if "total_poloidal_distance" in v:
        tot = v["total_poloidal_distance"]
        for chain in C["y_groups"]:
            first = C["regions"][chain[0]]
            if first["connections"]["lower"] is None:
                continue
            sx, _ = meta["region_indices"][chain[0]]
            for xi in range(first["nx"]):
                circ = 0.0
                for rid in chain:
                    d = C["regions"][rid]["contours"][2 * xi + 1]["d"]
                    cc = C["regions"][rid]["contours"][2 * xi + 1]
                    circ += d[cc["endInd"]] - d[cc["startInd"]]
                got = float(np.ravel(tot)[sx.start + xi])
                if not abs(got - circ) <= 1e-10 * circ:
                    bad.append(("total-distance", "total_poloidal_distance %r differs from the sum of the contour lengths round the surface %r" % (got, circ)))
                    break
    # circle: hy = r and circumference = 2 pi r up to the chord error of the FineContour
    if g["spec"].get("case") == "circular":
        R0 = 0.5 * (np.nanmax(v["Rxy"]) + np.nanmin(v["Rxy"]))
        r = np.hypot(v["Rxy"] - R0, v["Zxy"])
        N = g["spec"]["options"].get("finecontour_Nfine", 100)
        rel = np.nanmax(np.abs(hy / r - 1.0))
        bound = (2 * math.pi) ** 2 / (24 * N ** 2) * 4
        res.extra.setdefault("circle", {})[name] = {"max_rel_hy_minus_r": float(rel), "chord_error_bound": bound}
        if "linear" in str(g["spec"]["options"].get("poloidal_spacing_method", "")) and rel > bound + 1e-6:
            bad.append(("circle-hy", "circular grid: hy differs from the minor radius by %.3g (chord-error bound %.3g)" % (rel, bound)))
        # any spacing: hy dy of a cell is the exact arc r * dtheta between its two y-faces (the periodic closure included)
        Ry, Zy = v.get("Rxy_ylow"), v.get("Zxy_ylow")
        R0c = float(g["spec"]["options"].get("R0", R0))
        if Ry is not None and Ry.shape == hy.shape:
            rad = np.hypot(Ry - R0c, Zy)
            th = np.unwrap(np.arctan2(Zy, Ry - R0c), axis=1)
            thn = np.concatenate([th[:, 1:], th[:, :1] + np.sign(th[:, 1:2] - th[:, :1]) * 2 * np.pi], axis=1)
            arc = np.abs(0.5 * (rad + np.roll(rad, -1, axis=1)) * (thn - th))
            with np.errstate(all="ignore"):
                ea = np.nanmax(np.abs(hy * v["dy"] / arc - 1.0))
            res.extra["circle"][name]["max_rel_hydy_minus_arc"] = float(ea)
            if ea > 4 * bound + 1e-6:
                bad.append(("circle-arc", "circular grid: hy*dy differs from the exact arc r*dtheta between the cell's y-faces by %.3g (relative; chord-error bound %.3g)" % (ea, 4 * bound)))
    for wid, msg in bad:
        res.violation(wid + ":" + ("nonorth" if "nonorth" in name else "orth"), msg + " [" + name + "]", spec)
    return not bad


def correspondence(res, g, lines, pend):
    """replay calcHy / calcPoloidalDistance folds through the Lean model on the extracted distance lists"""
    C = g["extras"]["contours"]
    meta = g["extras"]["meshmeta"]
    v = g["vars"]
    h = vlib.f2hex
    name = gname(g)
    for rid, reg in C["regions"].items():
        sx, sy = meta["region_indices"][rid]
        for xi in range(reg["nx"]):
            d = reg["contours"][2 * xi + 1]["d"]
            lines.append("c05hy " + " ".join(h(t) for t in d))
            want_c = v["hy"][sx.start + xi, sy] * reg["dy"]
            want_y = v["hy_ylow"][sx.start + xi, sy][1:] * reg["dy"]
            pend.append(("hy", name, rid, xi, want_c, want_y))
            # the y-face at the lower end of the region, which borrows a half cell from the region below (or doubles its own at a target)
            low = reg["connections"].get("lower")
            dbelow = C["regions"][low]["contours"][2 * xi + 1]["d"] if low is not None else []
            lines.append("c05hj " + " ".join(h(t) for t in d) + " / " + " ".join(h(t) for t in dbelow) + " /")
            pend.append(("hyjoin", name, rid, xi, v["hy_ylow"][sx.start + xi, sy] * reg["dy"], low is not None))
    for chain in C["y_groups"]:
        first = C["regions"][chain[0]]
        for xi in range(first["nx"]):
            parts = []
            for k, rid in enumerate(chain):
                c = C["regions"][rid]["contours"][2 * xi + 1]
                # the region's own start point: the chain is measured from there (first region) / continues from the join (later ones)
                parts.append("%d %s" % (c["startInd"], " ".join(h(t) for t in c["d"])))
            lines.append("c05pd " + " / ".join(parts))
            want = []
            for rid in chain:
                sx, sy = meta["region_indices"][rid]
                x = sx.start + xi
                row = []
                for y in range(sy.start, sy.stop):
                    row += [v["poloidal_distance_ylow"][x, y], v["poloidal_distance"][x, y]]
                want.append(row)
            pend.append(("pd", name, chain, xi, want, None))


def run(res, tier):
    import gridlab

    res.rule = ("real grids (orthogonal lsn, non-orthogonal cdn, circular with linear spacing; thorough: more topologies, guards, Nfine "
                "doubling): oracle on the file (hy>0, two-chord bounds of every cell's arc length, strict increase of poloidal_distance along "
                "every chain of y-connected regions at every radial index, circumference = sum of contour lengths, circle exactness against the "
                "proved chord-error bound); correspondence: hy*dy and poloidal_distance of every contour/chain recomputed by the Lean model "
                "from the in-process contour distance lists. distinct by (grid, region/chain, radial index)")
    res.trusted += ["FineContour.getDistance's two-nearest-point interpolation and the contour distances themselves are inputs of the model (extracted in-process)"]
    lines, pend = [], []
    built = gridlab.get(specs(tier))
    # geometry() twice == geometry() once
    twice = [g for g in built if g["spec"].get("geometry_twice") and not g["error"]]
    for g2 in twice:
        ref = next((g for g in built if not g["error"] and not g["spec"].get("geometry_twice")
                    and {k: v for k, v in g["spec"].items() if k != "geometry_twice"} == {k: v for k, v in g2["spec"].items() if k != "geometry_twice"}), None)
        if ref is None:
            continue
        res.case(key=("geometry-twice", gname(g2)), nontrivial=True, sample={"op": "geometry() twice", "grid": gname(g2)})
        diff = [k for k, a in ref["vars"].items() if getattr(a, "dtype", None) is not None and a.dtype.kind == "f" and k in g2["vars"]
                and not np.array_equal(a, g2["vars"][k], equal_nan=True)]
        if diff:
            k0 = next((k for k in diff if "poloidal_distance" in k or k.startswith("hy")), diff[0])
            res.violation("geometry-twice-differs", "%s: after a second call of geometry() on the same mesh the written %s differ from those after one call (%s by %.3g)"
                          % (gname(g2), diff[:6], k0, float(np.nanmax(np.abs(np.nan_to_num(ref["vars"][k0]) - np.nan_to_num(g2["vars"][k0]))))), {"spec": g2["spec"]})
        else:
            res.traces += 1
    for g in built:
        name = gname(g)
        if g["error"]:
            res.case(key=("grid-refused", name, g["error"][0]), nontrivial=False)
            res.extra.setdefault("refused", []).append([name, g["error"][0], g["error"][1][:300]])
            continue
        res.case(key=("grid", name), nontrivial="circular" not in name, sample={"grid": name})
        if oracle(res, g):
            res.traces += 1
        correspondence(res, g, lines, pend)
    try:
        mo = vlib.lean_driver(lines) if lines else []
    except Exception as ex:
        res.broken("model driver failed", str(ex)[-500:])
        return
    worst = 0.0
    reported = set()
    for (kind, name, a, xi, w1, w2), m in zip(pend, mo):
        res.case(key=(kind, name, str(a), xi), nontrivial=True)
        if kind == "hyjoin":
            got = [vlib.hex2f(t) for t in m.split()]
            want = np.array(w1)
            # model gives all ny+1 faces; the file holds the first ny of them for this region
            e = float(np.max(np.abs(np.array(got[:len(want)]) - want)) / max(1e-300, np.max(np.abs(want))))
            if e > 1e-10:
                res.broken("hy_ylow*dy differs from the model's join-face formula (%s)" % ("face shared with the region below" if w2 else "target face"),
                           {"grid": name, "region": a, "x": xi, "rel": e})
            else:
                res.traces += 1
            continue
        if kind == "hy":
            p1, p2 = m.split("|")
            g1 = np.array([vlib.hex2f(t) for t in p1.split()])
            g2 = np.array([vlib.hex2f(t) for t in p2.split()])
            e = max(np.max(np.abs(g1 - w1) / w1), np.max(np.abs(g2 - w2) / w2) if len(w2) else 0.0)
            worst = max(worst, float(e))
            if e > 1e-10:
                res.broken("hy*dy differs from the model's differences of the contour distances", {"grid": name, "region": a, "x": xi, "rel": float(e)})
            else:
                res.traces += 1
        else:
            rows = [[vlib.hex2f(t) for t in part.split()] for part in m.split("/")]
            ok = True
            for k, (got, want) in enumerate(zip(rows, w1)):
                # model returns values at every contour point (face, centre, …, last face); the file stores all but the last face
                got = np.array(got[: len(want)])
                want = np.array(want)
                e = np.max(np.abs(got - want)) / max(1e-300, np.max(np.abs(want)))
                worst = max(worst, float(e))
                if e > 1e-10:
                    ok = False
                    # a concrete failing input on the implementation: the jump at the join
                    jump = float(want[0] - (w1[k - 1][-1] if k > 0 else 0.0))
                    wid = "pd-chain-jump:" + ("nonorth" if "nonorth" in name else "orth")
                    if wid not in reported:
                        reported.add(wid)
                        res.violation(wid, "poloidal_distance of region %s in chain %s (radial index %d) is offset by %.3g m from the continuation of "
                                      "the previous region (a region's distances must be measured from its own start point) [%s]" % (
                                          a[k], a, xi, float(np.max(np.abs(got - want))), name), {"grid": name, "chain": a, "x": xi})
                    break
            if ok:
                res.traces += 1
    res.extra["max_rel_diff_file_vs_model"] = worst


def replay(rep):
    print("REPLAY: re-run `py/check.py C05`; payload:", rep["payload"])
    return 1
