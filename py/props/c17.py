"""C17 — g-eqdsk write/read.  Correspondence of lean/HypnoModel/Model/Geqdsk.lean with
hypnotoad.geqdsk._geqdsk / _fileutils, plus the direct round-trip oracle on the implementation."""
import io
import math
import contextlib

import numpy as np

import vlib

TEN = "ten significant digits"


def fmt(x):
    return "%1.9E" % x


def rand_value(r):
    k = r.random()
    if k < 0.05:
        return 0.0
    if k < 0.08:
        return -0.0
    if k < 0.12:
        # rounds up to the next power of ten in the format
        return r.choice([-1, 1]) * 9.9999999996 * 10.0 ** r.randint(-20, 20)
    if k < 0.2:
        return r.choice([-1, 1]) * float(r.randint(1, 9)) * 10.0 ** r.randint(-99, 99)
    m = r.uniform(1.0, 9.999999999)
    e = r.randint(-99, 98) if r.random() < 0.3 else r.randint(-6, 8)
    return r.choice([-1.0, 1.0, -1.0]) * m * 10.0 ** e


def rand_data(r, nx=None, ny=None, nb=None, nl=None):
    nx = nx if nx is not None else r.choice([1, 2, 3, 4, 5, 6, 7, 9, 10, 11, 13, r.randint(1, 40)])
    ny = ny if ny is not None else r.choice([1, 2, 3, 4, 5, 6, 8, 10, 12, r.randint(1, 30)])
    d = {"nx": nx, "ny": ny}
    for k in ["rdim", "zdim", "rcentr", "rleft", "zmid", "rmagx", "zmagx", "simagx", "sibdry", "bcentr", "cpasma"]:
        d[k] = rand_value(r)
    for k in ["fpol", "pres", "qpsi"]:
        d[k] = np.array([rand_value(r) for _ in range(nx)])
    if r.random() < 0.5:
        d["ffprime"] = np.array([rand_value(r) for _ in range(nx)])
    if r.random() < 0.5:
        d["pprime"] = np.array([rand_value(r) for _ in range(nx)])
    d["psi"] = np.array([[rand_value(r) for _ in range(ny)] for _ in range(nx)]).reshape(nx, ny)
    nb = nb if nb is not None else r.choice([0, 0, 1, 2, 3, 5, 7, r.randint(0, 30)])
    nl = nl if nl is not None else r.choice([0, 0, 1, 2, 4, 5, 6, r.randint(0, 30)])
    if nb > 0 or r.random() < 0.3:
        d["rbdry"] = np.array([rand_value(r) for _ in range(nb)])
        d["zbdry"] = np.array([rand_value(r) for _ in range(nb)])
    if nl > 0 or r.random() < 0.3:
        d["rlim"] = np.array([rand_value(r) for _ in range(nl)])
        d["zlim"] = np.array([rand_value(r) for _ in range(nl)])
    return d


def rand_header_kwargs(r):
    kw = {}
    k = r.random()
    if k < 0.3:
        kw["label"] = r.choice(["hypnotoad", "EFIT", "x", "a b c", "twelve_chars", "longer than eleven chars", "tab\there"])
    k = r.random()
    if k < 0.3:
        kw["shot"] = r.choice([0, 7, 123456, 99999999, "#123", "shot 9"])
    k = r.random()
    if k < 0.3:
        kw["time"] = r.choice([0, 5, 2500, 10 ** 12, "1.5s", "a time string longer than sixteen"])
    return kw


def real_write(d, kw):
    from hypnotoad.geqdsk import _geqdsk

    fh = io.StringIO()
    with contextlib.redirect_stdout(io.StringIO()):
        _geqdsk.write(d, fh, **kw)
    return fh.getvalue()


def real_read(text):
    from hypnotoad.geqdsk import _geqdsk

    with contextlib.redirect_stdout(io.StringIO()):
        return _geqdsk.read(io.StringIO(text))


def tohex(s):
    return s.encode("latin-1").hex() or "-"


def model_write_line(d, pre):
    nx, ny = d["nx"], d["ny"]
    vals = [d[k] for k in ["rdim", "zdim", "rcentr", "rleft", "zmid", "rmagx", "zmagx", "simagx", "sibdry", "bcentr", "cpasma"]]
    vals += list(d["fpol"]) + list(d["pres"])
    if "ffprime" in d:
        vals += list(d["ffprime"])
    if "pprime" in d:
        vals += list(d["pprime"])
    vals += [d["psi"][x, y] for x in range(nx) for y in range(ny)]
    vals += list(d["qpsi"])
    rb = list(d.get("rbdry", []))
    zb = list(d.get("zbdry", [])) if "rbdry" in d else []
    rl = list(d.get("rlim", []))
    zl = list(d.get("zlim", [])) if "rlim" in d else []
    vals += rb + zb + rl + zl
    head = [tohex(pre), nx, ny, int("ffprime" in d), int("pprime" in d), int("rbdry" in d), len(rb), len(zb),
            int("rlim" in d), len(rl), len(zl)]
    return "c17w " + " ".join(str(h) for h in head) + " " + " ".join(fmt(v) for v in vals)


def flatten_read(data):
    nx, ny = data["nx"], data["ny"]
    out = [data[k] for k in ["rdim", "zdim", "rcentr", "rleft", "zmid", "rmagx", "zmagx", "simagx", "sibdry", "bcentr", "cpasma"]]
    for k in ["fpol", "pres", "ffprime", "pprime"]:
        out += list(data[k])
    out += [data["psi"][x, y] for x in range(nx) for y in range(ny)]
    out += list(data["qpsi"])
    for k in ["rbdry", "zbdry", "rlim", "zlim"]:
        out += list(data.get(k, []))
    return out


def model_val(tok):
    if tok.startswith("f"):
        return float(tok[1:])
    return int(tok[1:])


def same_num(a, b):
    a = float(a)
    b = float(b)
    if a == b:
        return math.copysign(1, a) == math.copysign(1, b) or True
    return False


def classify_exc(e):
    if isinstance(e, StopIteration):
        return "eof"
    if isinstance(e, (RuntimeError,)) and "StopIteration" in str(e):
        return "eof"
    if isinstance(e, TypeError):
        return "type"
    if isinstance(e, ValueError):
        return "header"
    return "other:" + type(e).__name__


def roundtrip_oracle(d, data):
    """the property itself on the implementation: read(write(d)) == d to ten significant digits.
    returns None or a description of the first difference"""
    if data["nx"] != d["nx"] or data["ny"] != d["ny"]:
        return "nx, ny read back as %r, %r (written %r, %r)" % (data["nx"], data["ny"], d["nx"], d["ny"])
    nx, ny = d["nx"], d["ny"]

    def chk(name, got, want):
        got = np.asarray(got, dtype=float)
        want = np.asarray([float(fmt(v)) for v in np.asarray(want, dtype=float).ravel()]).reshape(np.shape(want))
        if got.shape != want.shape:
            return "%s: shape %r, expected %r" % (name, got.shape, want.shape)
        bad = np.argwhere(~(got == want))
        if len(bad):
            i = tuple(bad[0])
            return "%s%r read back as %r, written %r" % (name, i, got[i], want[i])
        return None

    for k in ["rdim", "zdim", "rcentr", "rleft", "zmid", "rmagx", "zmagx", "simagx", "sibdry", "bcentr", "cpasma"]:
        m = chk(k, [data[k]], [d[k]])
        if m:
            return m
    for k in ["fpol", "pres", "qpsi"]:
        m = chk(k, data[k], d[k])
        if m:
            return m
    for k in ["ffprime", "pprime"]:
        m = chk(k, data[k], d[k] if k in d else np.zeros(nx))
        if m:
            return m
    m = chk("psi", data["psi"], d["psi"])
    if m:
        return m
    for kr, kz in [("rbdry", "zbdry"), ("rlim", "zlim")]:
        n = len(d[kr]) if kr in d else 0
        if n == 0:
            if kr in data and len(data[kr]) > 0:
                return "%s present on read but not written" % kr
            continue
        if kr not in data:
            return "%s written (%d points) but absent on read" % (kr, n)
        m = chk(kr, data[kr], d[kr]) or chk(kz, data[kz], d[kz])
        if m:
            return m
    return None


def abutting_texts(r, d, text):
    """re-lay out the body of a written file: remove optional blanks, move line breaks. Numbers then abut."""
    lines = text.split("\n")
    head, body = lines[0], "\n".join(lines[1:])
    out = []
    # variant 1: blanks before positive numbers removed wherever the previous character is a digit of an exponent
    # is NOT valid (1.0E+001.0 is ambiguous), so only negative numbers abut: remove every blank that precedes '-'
    out.append(head + "\n" + body.replace(" -", "-"))
    # variant 2: every value on its own line
    import re

    toks = re.findall(r"[ +\-]?\d+(?:\.\d+[Ee][\+\-]\d\d)?", body)
    out.append(head + "\n" + "\n".join(toks) + "\n")
    # variant 3: all values of the body on very long lines, random breaks
    s = ""
    for t in toks:
        s += t
        if r.random() < 0.1:
            s += "\n" * r.randint(1, 3)
    out.append(head + "\n" + s + "\n")
    # variant 4: lower-case exponent marker
    out.append(head + "\n" + body.replace("E", "e"))
    return out


def check_one(res, r, d, kw, tag, lines_w, lines_r, pending):
    """real write/read now; model ops queued"""
    try:
        text = real_write(d, kw)
    except Exception as e:  # explicit refusal is allowed
        res.case(key=("write-raises", type(e).__name__), nontrivial=False)
        return
    hl = text.split("\n")[0]
    import re as _re

    m = _re.match(r"^(.*)   3 +\d+ +\d+$", hl, _re.S)
    pre = m.group(1) if m else hl[:-12]
    lines_w.append(model_write_line(d, pre))
    pending.append(("w", tag, d, kw, text))
    texts = [("plain", text)] + [("abut%d" % i, t) for i, t in enumerate(abutting_texts(r, d, text))]
    for kind, t in texts:
        try:
            data = real_read(t)
            err = None
        except BaseException as e:  # noqa
            data = None
            err = e
        lines_r.append("c17r " + tohex(t))
        pending.append(("r", tag + "/" + kind, d, kw, t, data, err))


def desc(d, kw):
    return {"nx": d["nx"], "ny": d["ny"], "ffprime": "ffprime" in d, "pprime": "pprime" in d,
            "nbdry": len(d["rbdry"]) if "rbdry" in d else None, "nlim": len(d["rlim"]) if "rlim" in d else None,
            "header": {k: str(v) for k, v in kw.items()}}


def dump(d, kw):
    out = {}
    for k, v in d.items():
        out[k] = np.asarray(v).tolist() if not isinstance(v, (int, float)) else v
    return {"data": out, "kw": kw}


def undump(p):
    d = {}
    for k, v in p["data"].items():
        d[k] = np.array(v, dtype=float) if isinstance(v, list) else v
    if "psi" in d:
        d["psi"] = d["psi"].reshape(d["nx"], d["ny"])
    return d, p["kw"]


def run_cases(res, cases):
    r = vlib.rng("c17-layout")
    lines_w, lines_r, pending = [], [], []
    for tag, d, kw in cases:
        check_one(res, r, d, kw, tag, lines_w, lines_r, pending)
    out = vlib.lean_driver(lines_w + lines_r)
    ow, orr = out[: len(lines_w)], out[len(lines_w):]
    iw = ir = 0
    for p in pending:
        if p[0] == "w":
            _, tag, d, kw, text = p
            mt = bytes.fromhex(ow[iw]).decode("latin-1") if ow[iw] != "bad-op" else None
            iw += 1
            key = (d["nx"] % 5, d["ny"] % 5, "ffprime" in d, "pprime" in d, "rbdry" in d, "rlim" in d,
                   min(d["nx"], 1000) // 1000, tuple(sorted(kw)))
            res.case(key=("w",) + key, nontrivial=True, sample={"op": "write", **desc(d, kw)})
            if mt != text:
                # correspondence broke: is the property violated on this input?
                try:
                    data = real_read(text)
                    m = roundtrip_oracle(d, data)
                except BaseException as e:  # noqa
                    m = "read of the written file raises %s: %s" % (type(e).__name__, e)
                if m:
                    res.violation(witness_id(d, m), "write→read round trip: " + m, dump(d, kw))
                else:
                    i = next((k for k in range(min(len(mt or ""), len(text))) if (mt or "")[k] != text[k]), -1)
                    res.broken("write text differs from model (round trip still holds)",
                               {"case": desc(d, kw), "first_diff_at": i, "impl": text[max(0, i - 30): i + 30],
                                "model": (mt or "")[max(0, i - 30): i + 30]})
        else:
            _, tag, d, kw, t, data, err = p
            mo = orr[ir]
            ir += 1
            kind = tag.split("/")[-1]
            res.case(key=("r", kind, d["nx"] % 5, d["ny"] % 5, "rbdry" in d, "rlim" in d), nontrivial=True)
            # direct oracle on the implementation
            if err is not None:
                m = "read raises %s: %s" % (type(err).__name__, err)
            else:
                m = roundtrip_oracle(d, data)
            if m:
                res.violation(witness_id(d, m), "write→read round trip (%s layout): %s" % (kind, m), dump(d, kw))
                continue
            # correspondence with the model's reader
            if mo.startswith("err"):
                res.broken("model reader rejects a file the implementation reads", {"case": desc(d, kw), "layout": kind, "model": mo})
                continue
            f = mo.split(" ")
            mvals = [model_val(x) for x in f[5:]]
            ivals = flatten_read(data)
            if [int(f[1]), int(f[2])] != [data["nx"], data["ny"]] or len(mvals) != len(ivals) or any(
                    not same_num(a, b) for a, b in zip(mvals, ivals)):
                res.broken("model reader and implementation reader return different values",
                           {"case": desc(d, kw), "layout": kind})
            else:
                res.traces += 1


def witness_id(d, m):
    """stable identity of a failing input for the known-findings file"""
    if d["nx"] >= 1000 or d["ny"] >= 1000:
        return "header-abuts-nx-or-ny>=1000"
    if "rlim" in d and len(d["rlim"]) >= 10000:
        return "count-line-abuts-nlim>=10000"
    return "roundtrip:" + m.split(" ")[0]


def malformed(res, r):
    """malformed stream: the model and the implementation must fail the same way (model validation only)"""
    d = rand_data(r, nx=3, ny=2, nb=2, nl=0)
    text = real_write(d, {})
    cases = []
    body = text.split("\n")
    cases.append(("truncated", "\n".join(body[:4]) + "\n"))
    cases.append(("one-word-header", "only\n" + "\n".join(body[1:])))
    cases.append(("empty", ""))
    cases.append(("cut-mid-array", text[: len(text) // 2]))
    lines = ["c17r " + tohex(t) for _, t in cases]
    out = vlib.lean_driver(lines)
    for (name, t), mo in zip(cases, out):
        try:
            real_read(t)
            kind = "ok"
        except BaseException as e:  # noqa
            kind = classify_exc(e)
        mk = mo.split(" ")[1] if mo.startswith("err") else "ok"
        res.case(key=("malformed", name), nontrivial=True)
        if kind != mk:
            res.broken("malformed input handled differently", {"case": name, "impl": kind, "model": mk})
        else:
            res.traces += 1


def read_geqdsk_axes(res, r, n):
    """read_geqdsk maps the file onto R, Z, psi(R,Z), the psi profile grid and the wall as the format defines"""
    from hypnotoad.cases import tokamak

    captured = {}

    def fake_init(self, R1D, Z1D, psi2D, psi1D, fpol1D, **kw):
        captured.update(R1D=R1D, Z1D=Z1D, psi2D=psi2D, psi1D=psi1D, fpol1D=fpol1D, kw=kw)

    orig = tokamak.TokamakEquilibrium.__init__
    tokamak.TokamakEquilibrium.__init__ = fake_init
    try:
        for i in range(n):
            d = rand_data(r, nx=r.randint(2, 9), ny=r.randint(2, 9), nl=r.choice([0, 3, 4, 7]))
            d["rdim"], d["zdim"] = abs(d["rdim"]) + 0.1, abs(d["zdim"]) + 0.1
            text = real_write(d, {})
            captured.clear()
            with contextlib.redirect_stdout(io.StringIO()):
                out = tokamak.read_geqdsk(io.StringIO(text))
            res.case(key=("axes", d["nx"], d["ny"], "rlim" in d and len(d["rlim"])), nontrivial=True)
            if isinstance(out, tuple):
                res.violation("read_geqdsk-raises", "read_geqdsk failed: %r" % (out[1],), dump(d, {}))
                continue
            q = lambda v: float(fmt(v))  # noqa
            nx, ny = d["nx"], d["ny"]
            exp_R = [q(d["rleft"]) + (q(d["rdim"])) * k / (nx - 1) for k in range(nx)]
            exp_Z = [q(d["zmid"]) - 0.5 * q(d["zdim"]) + q(d["zdim"]) * k / (ny - 1) for k in range(ny)]
            exp_p = [q(d["simagx"]) + (q(d["sibdry"]) - q(d["simagx"])) * k / (nx - 1) for k in range(nx)]
            msgs = []
            if not np.allclose(captured["R1D"], exp_R, rtol=1e-12, atol=1e-300):
                msgs.append("R1D is not linspace(rleft, rleft+rdim, nx)")
            if not np.allclose(captured["Z1D"], exp_Z, rtol=1e-12, atol=1e-300 + 1e-12 * abs(q(d["zdim"]))):
                msgs.append("Z1D is not linspace(zmid-zdim/2, zmid+zdim/2, ny)")
            if not np.allclose(captured["psi1D"], exp_p, rtol=1e-12, atol=1e-12 * (abs(q(d["simagx"])) + abs(q(d["sibdry"])))):
                msgs.append("psi1D is not linspace(simagx, sibdry, nx)")
            want_psi = np.array([[q(d["psi"][x, y]) for y in range(ny)] for x in range(nx)])
            if captured["psi2D"].shape != (nx, ny) or not (captured["psi2D"] == want_psi).all():
                msgs.append("psi2D[x,y] is not the file's psi in (R index, Z index) order")
            nl = len(d["rlim"]) if "rlim" in d else 0
            wall = captured["kw"].get("wall")
            if nl == 0:
                if wall:
                    msgs.append("wall returned though the file has no limiter")
            else:
                if wall is None or len(wall) != nl or any(
                        (w[0], w[1]) != (q(a), q(b)) for w, a, b in zip(wall, d["rlim"], d["zlim"])):
                    msgs.append("wall is not zip(rlim, zlim)")
            if not (np.asarray(captured["fpol1D"]) == np.array([q(v) for v in d["fpol"]])).all():
                msgs.append("fpol profile differs")
            for m in msgs:
                res.violation("read_geqdsk:" + m.split(" ")[0], m, dump(d, {}))
            if not msgs:
                res.traces += 1
    finally:
        tokamak.TokamakEquilibrium.__init__ = orig


def run(res, tier):
    r = vlib.rng("c17")
    res.rule = ("random data sets (nx, ny, optional blocks, boundary/limiter counts, header label/shot/time variants, values with "
                "random sign/magnitude incl. ±0, exponents to ±99 and values that round up to the next decade) are written by the real "
                "writer; the model must produce the same bytes; the real and model readers are run on that text and on 4 re-laid-out "
                "variants (negative numbers abutting, one value per line, random line breaks, lower-case exponent); a case is "
                "non-trivial/distinct by (nx mod 5, ny mod 5, which optional blocks, header variant, layout)")
    res.trusted += [
        "CPython '%1.9E' formatting, str(int), float(str), int(str) (the D10 <-> float step)",
        "the free text before the three header integers is arbitrary characters without line break in the model",
    ]
    res.assumptions += ["values are finite with two-digit decimal exponents (the property's quantifier)"]
    n = 60 if tier == "quick" else 1500
    cases = []
    # corpus: sizes at the chunking boundaries and at the fixed-width limits
    k = 0
    for nx, ny in [(1, 1), (5, 5), (4, 6), (6, 4), (10, 3), (3, 10), (999, 1), (1, 999)]:
        cases.append(("corpus%d" % k, rand_data(r, nx=nx, ny=ny), {}))
        k += 1
    cases.append(("wide-nx", rand_data(r, nx=1000, ny=1, nb=0, nl=0), {}))
    cases.append(("wide-ny", rand_data(r, nx=2, ny=1000, nb=0, nl=0), {}))
    cases.append(("wide-both", rand_data(r, nx=1000, ny=24, nb=0, nl=0), {}) if tier == "thorough" else  # (1000 x 1000 is 80 MB of text for the interpreted driver)
                 ("wide-nx2", rand_data(r, nx=1234, ny=2, nb=0, nl=0), {}))
    cases.append(("nlim-9999", rand_data(r, nx=2, ny=2, nb=3, nl=9999), {}))
    cases.append(("nlim-10000", rand_data(r, nx=2, ny=2, nb=3, nl=10000), {}))
    cases.append(("nbdry-10000", rand_data(r, nx=2, ny=2, nb=10000, nl=4), {}))
    for i in range(n):
        cases.append(("rand%d" % i, rand_data(r), rand_header_kwargs(r)))
    B = 40
    for i in range(0, len(cases), B):
        run_cases(res, cases[i: i + B])
    malformed(res, r)
    read_geqdsk_axes(res, r, 30 if tier == "quick" else 300)


def replay(rep):
    p = rep["payload"]
    d, kw = undump(p)
    text = real_write(d, kw)
    try:
        data = real_read(text)
        m = roundtrip_oracle(d, data)
    except BaseException as e:  # noqa
        m = "read raises %s: %s" % (type(e).__name__, e)
    if m:
        print("REPLAY: property C17 fails on this input: " + m)
        return 1
    print("REPLAY: round trip holds on this input")
    return 0
