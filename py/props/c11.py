"""C11 — targets sit on the wall; penalty_mask and wall output match the geometry.
Oracle on real grids with axis-aligned and slanted, clockwise and anticlockwise, coarse and finely subdivided walls; hand model of the
wall normalisation, of the contour index bookkeeping when the wall point is inserted and of the penalty-mask decision table
(Model/Wall.lean), replayed against the real polygons.area / clockwise, PsiContour.insert, addPointAtWallToContours and calcPenaltyMask."""
import numpy as np

import vlib

RECT = [(1.25, -0.45), (1.25, 0.45), (1.75, 0.45), (1.75, -0.45)]                      # clockwise as given
SLANT = [(1.22, -0.50), (1.20, 0.42), (1.50, 0.52), (1.80, 0.40), (1.78, -0.44), (1.50, -0.56)]
W2 = [(1.2, -0.5), (1.2, 0.5), (1.8, 0.5), (1.8, -0.5)]
# a limiter-like section that cuts into the scrape-off layer away from the targets
# a V-shaped floor: targets slanted strongly relative to the boundary-cell size, so that some contours fall short of the wall
VFLOOR = [(1.2, -0.4), (1.5, -0.68), (1.8, -0.4), (1.8, 0.5), (1.2, 0.5)]
# a rectangle whose lower corners are chamfered at exactly 45 degrees (|dR| == |dZ| in floating point: all coordinates are dyadic)
CHAMFER = [(1.1875 + 0.15625, -0.5), (1.8125 - 0.15625, -0.5), (1.8125, -0.5 + 0.15625), (1.8125, 0.5), (1.1875, 0.5), (1.1875, -0.5 + 0.15625)]
# box with a shelf above the outer target and a pocket behind it: the outer SOL surfaces leave the wall through the top of the shelf, re-enter
# in the pocket and leave for good through the floor; the target is the FIRST exit seen from the X-point
SHELF = [(1.2, -0.5), (1.8, -0.5), (1.8, -0.47), (1.655, -0.47), (1.628, -0.42), (1.602, -0.38), (1.8, -0.38), (1.8, 0.5), (1.2, 0.5)]
LIMITER = [(1.25, -0.45), (1.25, 0.45), (1.75, 0.45), (1.75, 0.12), (1.668, 0.12), (1.668, -0.06), (1.75, -0.06), (1.75, -0.45)]


def subdivide(w, k):
    out = []
    for i, a in enumerate(w):
        b = w[(i + 1) % len(w)]
        for t in range(k):
            out.append((a[0] + (b[0] - a[0]) * t / k, a[1] + (b[1] - a[1]) * t / k))
    return out


def area2(w):
    return sum((w[(i + 1) % len(w)][0] - w[i][0]) * (w[i][1] + w[(i + 1) % len(w)][1]) for i in range(len(w)))


def dist_to_polyline(p, w):
    best = 1e9
    for i in range(len(w)):
        a, b = np.array(w[i]), np.array(w[(i + 1) % len(w)])
        ab = b - a
        t = min(1.0, max(0.0, float(np.dot(np.array(p) - a, ab) / max(np.dot(ab, ab), 1e-300))))
        best = min(best, float(np.hypot(*(np.array(p) - (a + t * ab)))))
    return best


def inside(p, w):
    """winding-number point in polygon (independent of the code's parity-of-crossings test)"""
    wn = 0
    x, y = p
    for i in range(len(w)):
        (x0, y0), (x1, y1) = w[i], w[(i + 1) % len(w)]
        if y0 <= y:
            if y1 > y and (x1 - x0) * (y - y0) - (x - x0) * (y1 - y0) > 0:
                wn += 1
        elif y1 <= y and (x1 - x0) * (y - y0) - (x - x0) * (y1 - y0) < 0:
            wn -= 1
    return wn != 0


def seg_cross(p1, p2, w):
    """parameters t in [0,1] along p1->p2 where the segment crosses the polygon"""
    ts = []
    p1, p2 = np.array(p1, float), np.array(p2, float)
    d = p2 - p1
    for i in range(len(w)):
        a, b = np.array(w[i], float), np.array(w[(i + 1) % len(w)], float)
        e = b - a
        den = d[0] * e[1] - d[1] * e[0]
        if abs(den) < 1e-300:
            continue
        t = ((a[0] - p1[0]) * e[1] - (a[1] - p1[1]) * e[0]) / den
        u = ((a[0] - p1[0]) * d[1] - (a[1] - p1[1]) * d[0]) / den
        if 0 <= t <= 1 and 0 <= u <= 1:
            ts.append(t)
    return sorted(ts)


def pre(res):
    from gen import gen_contour

    try:
        changed = gen_contour.main()
        res.extra["generated"] = {"file": "lean/HypnoModel/Gen/Contour.lean", "changed_since_last_run": bool(changed)}
    except Exception as e:
        res.extra["generated"] = {"error": "%s: %s" % (type(e).__name__, e)}
        res.gen_error = "%s: %s" % (type(e).__name__, e)


def specs_for(tier):
    import gridlab

    ex = ["wallinfo"]
    S = [("rect-cw nonorth cdn", gridlab.tokamak_spec("cdn", options={"orthogonal": False}, wall=RECT, extract_rz=ex)),
         ("slanted-ccw nonorth cdn", gridlab.tokamak_spec("cdn", options={"orthogonal": False}, wall=SLANT[::-1], extract_rz=ex)),
         ("rect-cw orth lsn", gridlab.tokamak_spec("lsn", wall=RECT, extract_rz=ex)),
         ("slanted-cw orth udn", gridlab.tokamak_spec("udn", wall=SLANT, extract_rz=ex)),
         ("limiter-section orth lsn", gridlab.tokamak_spec("lsn", options={"psinorm_sol": 1.2}, wall=LIMITER, extract_rz=ex)),
         ("v-floor nonorth lsn", gridlab.tokamak_spec("lsn", options={"orthogonal": False, "nx_pf": 2, "psinorm_sol": 1.25, "psinorm_pf": 0.7,
                                                                        "target_all_poloidal_spacing_length": 0.1}, wall=VFLOOR, extract_rz=ex))]
    S.append(("shelf nonorth lsn", gridlab.tokamak_spec("lsn", options={"orthogonal": False, "nx_pf": 2, "psinorm_sol": 1.3}, wall=SHELF, extract_rz=ex)))
    # far-SOL cells of both legs stick out through 45-degree chamfers
    S.append(("chamfer45 orth lsn", gridlab.tokamak_spec("lsn", options={"psinorm_sol": 1.3}, wall=CHAMFER, extract_rz=ex)))
    # a grid on which no two options that could be confused coincide (see gridlab.odd_spec)
    S.append(("odd orth lsn", gridlab.odd_spec("lsn", True, extract_rz=ex)))
    if tier == "thorough":
        S += [("slanted-cw nonorth cdn", gridlab.tokamak_spec("cdn", options={"orthogonal": False}, wall=SLANT, extract_rz=ex)),
              ("rect-fine nonorth cdn", gridlab.tokamak_spec("cdn", options={"orthogonal": False}, wall=subdivide(RECT, 7), extract_rz=ex)),
              ("rect nonorth lsn guards2", gridlab.tokamak_spec("lsn", options={"orthogonal": False, "y_boundary_guards": 2}, wall=W2, extract_rz=ex)),
              ("rect nonorth ldn", gridlab.tokamak_spec("ldn", options={"orthogonal": False}, wall=RECT, extract_rz=ex)),
              ("rect orth cdn guards0", gridlab.tokamak_spec("cdn", options={"y_boundary_guards": 0}, wall=RECT, extract_rz=ex)),
              ("slanted-fine orth usn", gridlab.tokamak_spec("usn", wall=subdivide(SLANT, 5), extract_rz=ex)),
              ("rect nonorth cdn Nfine80", gridlab.tokamak_spec("cdn", options={"orthogonal": False, "finecontour_Nfine": 80}, wall=RECT, extract_rz=ex)),
              ("slanted-ccw nonorth cdn Nfine80", gridlab.tokamak_spec("cdn", options={"orthogonal": False, "finecontour_Nfine": 80}, wall=SLANT[::-1], extract_rz=ex))]
    if tier == "thorough":
        S.append(("odd nonorth cdn", gridlab.odd_spec("cdn", False, extract_rz=ex)))
    return S


def oracle(res, tier):
    import gridlab

    S = specs_for(tier)
    out = gridlab.get([s for _, s in S])
    sag = {}
    for (t, sp), o in zip(S, out):
        res.case(key=t, nontrivial=True, sample={"grid": t})
        # the positions, targets and penalty mask are read right after calculateRZ(): they are judged also when geometry() later refuses
        wi = (o.get("rz") or {}).get("wallinfo")
        if o["error"]:
            res.extra.setdefault("refused", []).append([t, str(o["error"][:2])[:200], "positions judged" if wi is not None else "before positions"])
        if wi is None:
            continue
        win = [(float(a), float(b) + float(sp.get("z_offset", 0.0))) for a, b in sp["wall"]]
        cw = wi["closed_wall"]
        v = o.get("vars")
        # --- wall output
        stored = [tuple(p) for p in cw[:-1]]
        if not np.array_equal(cw[0], cw[-1]):
            res.violation("wall-not-closed", "%s: closed_wall does not end at its first point" % t, {"spec": sp})
        if area2(stored) > 0:
            res.violation("wall-orientation", "%s: the stored wall is clockwise (signed area %.3g)" % (t, 0.5 * area2(stored)), {"spec": sp})
        rot = lambda w, k: w[k:] + w[:k]  # noqa: E731
        if not any(stored == rot(c, k) for c in (win, win[::-1]) for k in range(len(win))):
            res.violation("wall-vertices", "%s: the stored wall is not the input wall (possibly reversed)" % t, {"spec": sp})
        if v is not None and not (np.array_equal(v["closed_wall_R"], cw[:, 0]) and np.array_equal(v["closed_wall_Z"], cw[:, 1])):
            res.violation("wall-output", "%s: closed_wall_R/Z in the grid file differ from the wall used" % t, {"spec": sp})
        if abs(abs(area2(stored)) - abs(area2(win))) > 1e-12:
            res.violation("wall-area", "%s: stored wall area differs from the input wall's" % t, {"spec": sp})
        # --- targets
        ng = wi["ng"]
        nonorth = sp["options"].get("orthogonal", True) is False
        nfine = sp["options"].get("finecontour_Nfine", 40)
        tol_wall = 2e-5 * (40.0 / nfine) ** 2
        worst_wall, worst_psi = 0.0, 0.0
        for rid, r in wi["regions"].items():
            nyl = r["Rylow"].shape[1]
            pv = r["psi_vals"]
            for end, is_t in (("lower", r["lower_target"]), ("upper", r["upper_target"])):
                if not is_t:
                    continue
                j = ng if end == "lower" else nyl - 1 - ng
                for arr, Rk, Zk, pk, off in (("ylow", "Rylow", "Zylow", "psi_ylow", 1), ("corners", "Rcorn", "Zcorn", "psi_corn", 0)):
                    for i in range(r[Rk].shape[0]):
                        onsep = bool(r["sep_contour"][2 * i + off]) if r["sep_contour"] else False
                        if not (nonorth or onsep):
                            continue
                        p = (float(r[Rk][i, j]), float(r[Zk][i, j]))
                        d = dist_to_polyline(p, stored)
                        epsi = abs(float(r[pk][i, j]) - pv[2 * i + off])
                        worst_wall, worst_psi = max(worst_wall, d), max(worst_psi, epsi)
                        if d > tol_wall:
                            res.violation("target-off-wall:%s" % t, "%s region %s: the %s target point of %s row %d, (%.6f, %.6f), is %.2e m from the wall (tolerance %.1e)"
                                          % (t, r["name"], end, arr, i, p[0], p[1], d, tol_wall), {"spec": sp, "region": r["name"]})
                        if epsi > wi["refine_atol"] * max(1.0, abs(pv[2 * i + off])) + 1e-12:
                            res.violation("target-off-surface:%s" % t, "%s region %s: the %s target point of %s row %d is off its flux surface by %.2e" % (t, r["name"], end, arr, i, epsi),
                                          {"spec": sp, "region": r["name"]})
            # --- cells between the targets inside the wall, boundary cells beyond it (only rows that reach the wall)
            Rc, Zc = r["Rc"], r["Zc"]
            ny = Rc.shape[1]
            for i in range(Rc.shape[0]):
                if not nonorth:
                    continue
                for jj in range(ny):
                    guard = (r["lower_target"] and jj < ng) or (r["upper_target"] and jj >= ny - ng)
                    ins = inside((float(Rc[i, jj]), float(Zc[i, jj])), stored)
                    if guard == ins:
                        res.violation("cell-side:%s" % t, "%s region %s: cell (%d,%d) at (%.5f, %.5f) is %s the wall but is a %s cell"
                                      % (t, r["name"], i, jj, Rc[i, jj], Zc[i, jj], "inside" if ins else "outside", "boundary" if guard else "domain"), {"spec": sp})
            # --- penalty mask recomputed independently from the y-faces
            pm = r["penalty_mask"]
            for i in range(pm.shape[0]):
                for jj in range(pm.shape[1]):
                    p1 = (float(r["Rylow"][i, jj]), float(r["Zylow"][i, jj]))
                    p2 = (float(r["Rylow"][i, jj + 1]), float(r["Zylow"][i, jj + 1]))
                    d1, d2 = dist_to_polyline(p1, stored), dist_to_polyline(p2, stored)
                    if min(d1, d2) < 5 * tol_wall:
                        # a face on the wall itself (the target): inside/outside is decided by rounding; the mask must be 0 or 1 or the
                        # fraction, checked below only through its range
                        if not (-1e-12 <= pm[i, jj] <= 1 + 1e-12):
                            res.violation("mask-range:%s" % t, "%s region %s: penalty_mask[%d,%d]=%r outside [0,1]" % (t, r["name"], i, jj, float(pm[i, jj])), {"spec": sp})
                        continue
                    o1, o2 = not inside(p1, stored), not inside(p2, stored)
                    mc = res.extra.setdefault("mask_cells", {}).setdefault(t, {"both_faces_outside": 0, "cut_by_wall": 0, "both_faces_inside": 0})
                    mc["both_faces_outside" if (o1 and o2) else "both_faces_inside" if not (o1 or o2) else "cut_by_wall"] += 1
                    if o1 and o2:
                        exp = 1.0
                    elif not o1 and not o2:
                        exp = 0.0
                    else:
                        ts = seg_cross(p1, p2, stored)
                        if len(ts) != 1:
                            continue
                        exp = ts[0] if o1 else 1.0 - ts[0]
                    if abs(float(pm[i, jj]) - exp) > 1e-9:
                        res.violation("mask-value:%s" % t, "%s region %s: penalty_mask[%d,%d]=%.6f, the geometry gives %.6f (faces %s/%s the wall)"
                                      % (t, r["name"], i, jj, float(pm[i, jj]), exp, "outside" if o1 else "inside", "outside" if o2 else "inside"), {"spec": sp, "region": r["name"]})
            sx, sy = r["slice"]
            if v is not None and not np.array_equal(v["penalty_mask"][sx, sy], pm):
                res.violation("mask-output:%s" % t, "%s region %s: penalty_mask in the file differs from the region's" % (t, r["name"]), {"spec": sp})
        res.extra.setdefault("worst", {})[t] = {"target_to_wall_m": worst_wall, "target_psi_error": worst_psi}
        sag[t] = worst_wall
        res.traces += 1
    # chord-sag is second order in the FineContour spacing
    for a, b in (("rect-cw nonorth cdn", "rect nonorth cdn Nfine80"), ("slanted-ccw nonorth cdn", "slanted-ccw nonorth cdn Nfine80")):
        if a in sag and b in sag and sag[a] > 1e-9:
            res.extra.setdefault("sag_ratio_Nfine40_over_80", {})[a] = sag[a] / max(sag[b], 1e-30)


# ------------------------------------------------------------------------------------------------ model correspondence
def frac(x):
    from fractions import Fraction

    return str(Fraction(x))


def fpts(w):
    return ";".join("%s,%s" % (frac(a), frac(b)) for a, b in w)


def corr_wall(res, rng, n):
    """wall orientation / closing: the real TokamakEquilibrium constructor on random polygons; polygons.area / clockwise directly"""
    import contextlib
    import io
    import warnings
    from hypnotoad import tokamak
    from hypnotoad.utils import polygons
    from props.c14 import example

    r1, z1, p2, p1 = example("lsn")
    lines, expect = [], []
    hist = {"cw": 0, "ccw": 0, "one-sided-in-Z": 0}
    for k in range(n):
        m = rng.randint(3, 8)
        # star-shaped polygon around a centre that may lie well above or below Z = 0, random start vertex and orientation
        cz = rng.choice([0.0, 0.0, 0.75, -0.75, 1.5])
        ang = sorted(rng.uniform(0, 6.283) for _ in range(m))
        w = [(round((1.5 + rng.uniform(0.2, 0.5) * np.cos(a)) * 64) / 64, round((cz + rng.uniform(0.2, 0.5) * np.sin(a)) * 64) / 64) for a in ang]
        if len(set(w)) < m:
            continue
        if rng.random() < 0.5:
            w = w[::-1]
        sh = rng.randrange(m)
        w = w[sh:] + w[:sh]
        if k % 6 == 0 and rng.random() < 0.5:
            # a zero-thickness fin: out from a vertex towards the centre and back through the same vertex (the wall visits that vertex twice)
            i_ = rng.randrange(len(w))
            tip = (round((0.7 * w[i_][0] + 0.3 * 1.5) * 64) / 64, round((0.7 * w[i_][1] + 0.3 * cz) * 64) / 64)
            if tip not in w:
                w = w[:i_ + 1] + [tip, w[i_]] + w[i_ + 1:]
                hist["with-fin"] = hist.get("with-fin", 0) + 1
        a2 = 2 * polygons.area(w)
        hist["cw" if a2 > 0 else "ccw"] += 1
        hist["one-sided-in-Z"] += cz != 0.0
        lines.append("c20a " + fpts(w))
        expect.append("%s %s" % (frac(a2), "true" if polygons.clockwise(w) else "false"))
        if k % 6 == 0:
            before = list(w)
            with warnings.catch_warnings(), contextlib.redirect_stdout(io.StringIO()):
                warnings.simplefilter("ignore")
                eq = tokamak.TokamakEquilibrium(r1, z1, p2.copy(), p1.copy(), [], wall=w, make_regions=False, settings={})
            if w != before:
                res.violation("wall-input-modified", "the caller's wall list is modified", {"wall": before})
            stored = [(float(p.R), float(p.Z)) for p in eq.wall]
            cl = [tuple(map(float, q)) for q in eq.closed_wallarray]
            lines.append("c11n " + fpts(w))
            expect.append(fpts(stored) + " | " + fpts(cl))
    res.extra.setdefault("inputs", {})["wall"] = hist
    return lines, expect, "wall orientation"


def corr_insert(res, rng, n):
    import contextlib
    import io
    import warnings
    from hypnotoad.core.equilibrium import PsiContour, Point2D

    lines, expect = [], []
    for _ in range(n):
        m = rng.randint(1, 7)
        vals = [10 * (i + 1) for i in range(m)]
        with warnings.catch_warnings(), contextlib.redirect_stdout(io.StringIO()):
            warnings.simplefilter("ignore")
            c = PsiContour(points=[Point2D(float(v), 0.0) for v in vals], psival=1.0, settings={}, Rrange=(0, 100), Zrange=(-1, 1))
        si = rng.randint(0, m - 1)
        ei = rng.choice([rng.randint(si, m - 1), rng.randint(-m, -1)])
        c.startInd, c.endInd = si, ei
        idx = rng.randint(-m - 2, m + 2)
        c.insert(idx, Point2D(99.0, 0.0))
        lines.append("c11i %d %d %d 99 %s" % (si, ei, idx, " ".join(map(str, vals))))
        expect.append("%s | %d %d" % (" ".join(str(int(p.R)) for p in c.points), c.startInd, c.endInd))
    return lines, expect, "PsiContour.insert"


def corr_extend(res, rng, n):
    """PsiContour.temporaryExtend on straight contours (psi = Z, points on Z = 0, spacing 10): which candidates are added before the range
    test stops the loop, and where startInd / endInd point afterwards"""
    import contextlib
    import io
    import warnings
    from hypnotoad.core.equilibrium import PsiContour, Point2D

    lines, expect = [], []
    hist = {"neg_end": 0, "stopped_by_range": 0, "both_sides": 0}
    for _ in range(n):
        m = rng.randint(4, 9)
        v0 = 10 * rng.randint(3, 8)
        vals = [v0 + 10 * i for i in range(m)]
        nl, nu = rng.choice([(0, 1), (1, 0), (1, 1), (2, 0), (0, 2), (2, 3), (3, 2)])
        lo = vals[0] - 10 * rng.randint(0, 4) - 5
        hi = vals[-1] + 10 * rng.randint(0, 4) + 5
        with warnings.catch_warnings(), contextlib.redirect_stdout(io.StringIO()):
            warnings.simplefilter("ignore")
            c = PsiContour(points=[Point2D(float(v), 0.0) for v in vals], psival=0.0, settings={}, Rrange=(lo, hi), Zrange=(-1, 1))
            si = rng.randint(0, m - 1)
            ei = rng.choice([rng.randint(si, m - 1), rng.randint(si - m, -1)])
            c.startInd, c.endInd = si, ei
            c.temporaryExtend(psi=lambda R, Z: Z + 0.0 * R, extend_lower=nl, extend_upper=nu, ds_lower=10.0, ds_upper=10.0)
        lows = [vals[0] - 10 * (i + 1) for i in range(nl)]
        ups = [vals[-1] + 10 * (i + 1) for i in range(nu)]
        hist["neg_end"] += ei < 0
        hist["stopped_by_range"] += len(c.points) < m + nl + nu
        hist["both_sides"] += nl > 0 and nu > 0
        lines.append("c11x %d %d %d %d %d %d %s" % (si, ei, lo, hi, nl, nu, " ".join(map(str, lows + ups + vals))))
        expect.append("%s | %d %d" % (" ".join(str(int(round(float(p.R)))) for p in c.points), c.startInd, c.endInd))
    res.extra.setdefault("inputs", {})["temporaryExtend"] = hist
    return lines, expect, "PsiContour.temporaryExtend"


def corr_addwall(res, rng, n):
    import contextlib
    import io
    import warnings
    from hypnotoad.core.equilibrium import PsiContour, Point2D
    from hypnotoad.core import mesh as meshmod

    lines, expect = [], []
    hist = {"replace-first": 0, "replace-second": 0, "insert": 0, "error": 0, "neg-upper-index": 0}
    for _ in range(n):
        m = rng.randint(5, 10)
        vals = [10 * (i + 1) for i in range(m)]
        lw, uw = rng.choice([(True, True), (True, False), (False, True)])
        rad = rng.choice([1, 3])
        li = rng.randint(0, m // 2 - 1)
        kind_l = rng.choice(["replace-first", "replace-second", "insert"])
        lp = {"replace-first": vals[li] + rng.choice([0, rad - 1]), "replace-second": vals[li + 1] - rng.choice([0, rad - 1]), "insert": vals[li] + 5}[kind_l]
        uip = rng.randint(m // 2, m - 2)
        kind_u = rng.choice(["replace-first", "replace-second", "insert"])
        up = {"replace-first": vals[uip] + rng.choice([0, rad - 1]), "replace-second": vals[uip + 1] - rng.choice([0, rad - 1]), "insert": vals[uip] + 5}[kind_u]
        neg = rng.random() < 0.4
        ui = uip - m if neg else uip
        if not lw:
            li, lp = 0, 0
        if not uw:
            ui, up = -2, 0
        with warnings.catch_warnings(), contextlib.redirect_stdout(io.StringIO()):
            warnings.simplefilter("ignore")
            c = PsiContour(points=[Point2D(float(v), 0.0) for v in vals], psival=1.0, settings={}, Rrange=(0, 1000), Zrange=(-1, 1))
        si0, ei0 = 0, m - 1
        c.startInd, c.endInd = si0, ei0
        c.contourSfunc = lambda psi=None: (lambda i: float(i))
        c.totalDistance = lambda psi=None: 1.0
        c._reset_cached = lambda: None

        class Stub(meshmod.MeshRegion):
            def __init__(self):
                pass

        class Plain:
            pass

        st = Stub()
        st.contours = [c]
        st.connections = {"lower": None if lw else 1, "upper": None if uw else 1}
        st.user_options = Plain()
        st.user_options.wall_point_exclude_radius = float(rad)
        st.equilibriumRegion = Plain()
        st.equilibriumRegion.psi = None
        info = (c, li, Point2D(float(lp), 0.0) if lw else None, ui, Point2D(float(up), 0.0) if uw else None)

        def pmap(f, it, **kw):
            if f is meshmod._find_intersection:
                return [info]
            return [x[1] for x in it]

        st.parallel_map = pmap
        try:
            with contextlib.redirect_stdout(io.StringIO()):
                meshmod.MeshRegion.addPointAtWallToContours(st)
            c2 = st.contours[0]
            exp = "%s | %d %d" % (" ".join(str(int(p.R)) for p in c2.points), c2.startInd, c2.endInd)
            if lw:
                hist[kind_l] += 1
            if uw:
                hist[kind_u] += 1
            hist["neg-upper-index"] += bool(neg and uw)
        except IndexError:
            exp = "error"
            hist["error"] += 1
        except Exception as e:  # the real code no longer runs on the stub: a broken correspondence, not a crash of the check
            exp = "stub-failure:%s" % type(e).__name__
        lines.append("c11w %d %d %d %d %d %d %d %d %d %s" % (lw, uw, li, lp, ui, up, rad, si0, ei0, " ".join(map(str, vals))))
        expect.append(exp)
    res.extra.setdefault("inputs", {})["addPointAtWall"] = hist
    return lines, expect, "addPointAtWallToContours"


def corr_mask(res, rng, n):
    from hypnotoad.core import mesh as meshmod
    from hypnotoad.core.multilocationarray import MultiLocationArray

    lines, expect = [], []
    hist = {"0": 0, "1": 0, "fraction": 0}
    walls = [[(0, 0), (4, 0), (4, 4), (0, 4)], [(0, 0), (4, 1), (5, 4), (2, 5), (-1, 3)], [(0, 0), (4, 0), (4, 4), (2, 2.5), (0, 4)]]
    for _ in range(n):
        w = [(float(a), float(b)) for a, b in rng.choice(walls)]
        closed = w + [w[0]]
        q = lambda: (rng.randint(-8, 48) / 8 + 1 / 64, rng.randint(-8, 48) / 8 + 3 / 128)  # noqa: E731  (dyadic, off the vertices' rays)
        p1, p2 = q(), q()
        if p1 == p2:
            continue

        class Stub(meshmod.MeshRegion):
            def __init__(self):
                pass

        class Plain:
            pass

        st, eq = Stub(), Plain()
        st.nx, st.ny = 1, 1
        # the mask is a property of the cell and the wall only: regions with and without targets are treated alike
        st.connections = {"lower": rng.choice([None, 3]), "upper": rng.choice([None, 4]), "inner": rng.choice([None, 1]), "outer": rng.choice([None, 2])}
        st.name, st.myID, st.radialIndex = "stub", 0, 0
        st.Rxy, st.Zxy = MultiLocationArray(1, 1), MultiLocationArray(1, 1)
        st.Rxy.ylow = np.array([[p1[0], p2[0]]])
        st.Zxy.ylow = np.array([[p1[1], p2[1]]])
        eq.closed_wallarray = np.array(closed)
        eq.Rmin, eq.Rmax, eq.Zmin, eq.Zmax = 1.0, 3.0 + 1 / 32, 1.0, 2.0 + 1 / 16
        try:
            meshmod.MeshRegion.calcPenaltyMask(st, eq)
            val = float(st.penalty_mask[0, 0])
        except Exception as e:  # as above
            res.broken("calcPenaltyMask no longer runs on the stub region: %s" % type(e).__name__, {"error": str(e)[:200]})
            break
        hist["0" if val == 0 else "1" if val == 1 else "fraction"] += 1
        p0 = ((eq.Rmax + eq.Rmin) / 2, (eq.Zmax + eq.Zmin) / 2)
        lines.append("c11p %s %s %s %s" % (fpts(closed), fpts([p0]), fpts([p1]), fpts([p2])))
        expect.append(val * val)
    res.extra.setdefault("inputs", {})["penalty_mask"] = hist
    return lines, expect, "calcPenaltyMask"


def correspondence(res, tier):
    from fractions import Fraction

    rng = vlib.rng("C11-corr")
    k = 1 if tier == "quick" else 6
    batches = [corr_wall(res, rng, 120 * k), corr_insert(res, rng, 150 * k), corr_addwall(res, rng, 150 * k), corr_mask(res, rng, 200 * k),
               corr_extend(res, rng, 150 * k)]
    out = vlib.lean_driver([ln for b in batches for ln in b[0]])
    i = 0
    for ls, ex, name in batches:
        bad = None
        for ln, e in zip(ls, ex):
            res.case(key=(name, ln.split()[0], len(ln) // 40), nontrivial=True)
            o = out[i].strip()
            i += 1
            if isinstance(e, float):
                ok = abs(float(Fraction(o)) - e) < 1e-12
            else:
                ok = o == e
            if not ok and bad is None:
                bad = (ln, e, o)
        if bad:
            if name == "wall orientation" and bad[0].startswith("c20a"):
                res.violation("area", "polygons.area/clockwise give %s for the polygon %s; exact: %s" % (bad[1], bad[0][5:], bad[2]), {"line": bad[0]})
            elif name == "wall orientation":
                res.violation("wall-normalisation", "TokamakEquilibrium stores the wall %s for the input %s; anticlockwise + closed is %s" % (str(bad[1])[:200], bad[0][5:], bad[2][:200]), {"line": bad[0]})
            else:
                res.broken("model of %s differs from the implementation" % name, {"line": bad[0], "implementation": str(bad[1])[:300], "model": bad[2][:300]})
        else:
            res.traces += len(ls)


def run(res, tier):
    res.rule = ("real grids with rectangular / slanted, clockwise / anticlockwise, coarse / subdivided walls: stored wall anticlockwise, closed, same vertices, "
                "written unchanged; every target point (non-orthogonal: all rows; orthogonal: separatrix) within 2e-5*(40/Nfine)^2 m of the wall polyline and "
                "on its flux surface; domain cells inside / boundary cells outside (winding number); penalty_mask against an independent winding-number and "
                "crossing-fraction computation from the y-faces; model ops replayed on the real functions. distinct by (grid) / (op, outcome)")
    res.trusted += ["the winding-number point-in-polygon test used as reference (simple polygons in general position)"]
    correspondence(res, tier)
    oracle(res, tier)


def replay(rep):
    print("REPLAY payload:", rep.get("payload"))
    return 1
