"""C07 — curvature outputs are the contravariant components of curl(b/B).
Model GENERATED from MeshRegion.calc_curvature + the Equilibrium helper chain (py/gen/gen_fields.py, shared with C18).
Direct oracle: an independent finite-difference curl of b/B projected on grad x = grad psi, grad y (perpendicular to the measured
radial grid direction, magnitude 1/(hy cos beta)) and grad z = grad zeta - (Bt hy/(Bp R)) grad y, computed in-process at the
cell centres of real grids.  Correspondence: written components vs the Float twins of the generated formulas."""
import numpy as np

import vlib
from props.c18 import pre  # same generated file  # noqa: F401

OUT = ["curl_bOverB_x", "curl_bOverB_y", "curl_bOverB_z", "bxcvx", "bxcvy", "bxcvz"]


def specs(tier):
    import gridlab

    ex = ["fieldpts", "beta", "bpsign", "meshmeta", "regions"]
    S = [("rz", gridlab.tokamak_spec("lsn", fpol="linear", extract=ex)),                          # orthogonal, bpsign = -1, varying fpol
         ("rz", gridlab.tokamak_spec("ldn", fpol="linear", extract=ex)),                          # orthogonal, bpsign = +1
         ("rz", gridlab.tokamak_spec("cdn", fpol="linear", options={"orthogonal": False}, extract=ex)),  # non-orthogonal
         ("rz", gridlab.tokamak_spec("ldn", fpol="linear", options={"orthogonal": False}, extract=ex)),  # non-orthogonal with bpsign = +1
         ("rz", gridlab.tokamak_spec("lsn", fpol="linear", options={"cap_Bp_ylow_xpoint": True}, extract=ex)),  # option that touches Bpxy
         ("rz", gridlab.tokamak_spec("lsn", fpol="linear", options={"psi_interpolation_method": "dct"}, extract=ex)),  # the other interpolant
         ("rz", gridlab.tokamak_spec("lsn", fpol="linear", options={"reverse_Bt": True}, extract=ex)),  # sign options with a varying fpol
         ("rz", gridlab.tokamak_spec("ldn", fpol="linear", options={"reverse_current": True}, extract=ex)),
         ("xy", gridlab.tokamak_spec("lsn", fpol="linear", options={"curvature_type": "curl(b/B) with x-y derivatives", "nx_core": 4, "nx_sol": 4,
                                                                   "ny_sol": 16, "ny_inner_divertor": 6, "ny_outer_divertor": 6}, extract=ex)),
         ("xy", gridlab.tokamak_spec("ldn", fpol="linear", options={"curvature_type": "curl(b/B) with x-y derivatives", "nx_core": 4, "nx_sol": 4,
                                                                   "ny_inner_sol": 8, "ny_outer_sol": 8, "ny_inner_divertor": 6, "ny_outer_divertor": 6}, extract=ex)),
         # the first x-y grid with every cell halved: the disagreement with the exact projection is a discretisation error and must shrink
         ("xyfine", gridlab.tokamak_spec("lsn", fpol="linear", options={"curvature_type": "curl(b/B) with x-y derivatives", "nx_core": 8, "nx_sol": 8,
                                                                       "ny_sol": 32, "ny_inner_divertor": 12, "ny_outer_divertor": 12}, extract=ex))]
    # the analytic circular family with a sheared safety factor q(r) = a0 + a1 r^2 (second derivatives of psi involve dq/dr)
    S.append(("rz", gridlab.circular_spec(options={"number_of_processors": 1, "R0": 2.3, "B0": 3.2, "q_coefficients": [1.5, 2.0],
                                                   "r_inner": 0.3, "r_outer": 0.9, "nx": 5, "ny": 12}, extract=ex)))
    # a grid on which no two options that could be confused coincide (see gridlab.odd_spec)
    S.append(("rz", gridlab.odd_spec("lsn", True, extract=ex)))
    if tier == "thorough":
        S += [
              ("rz", gridlab.tokamak_spec("usn", fpol="negconst", extract=ex)),
              ("rz", gridlab.tokamak_spec("ldn", fpol="linear", options={"cap_Bp_ylow_xpoint": True, "orthogonal": False}, extract=ex)),
              ("rz", gridlab.tokamak_spec("cdn", fpol="const", options={"psi_interpolation_method": "dct"}, extract=ex)),
              ("rz", gridlab.tokamak_spec("lsn", fpol="linear", psi_sign=-1.0, extract=ex)),
              ("rz", gridlab.circular_spec(extract=ex))]
    return S


def gname(g, kind):
    s = g["spec"]
    o = s.get("options", {})
    return "%s/%s%s%s%s" % (kind, s.get("geometry", "circular"), "" if o.get("orthogonal", True) else "-nonorth",
                            "-capBp" if o.get("cap_Bp_ylow_xpoint") else "", ("" if s.get("psi_sign", 1.0) > 0 else "-psineg") + ("-q%s" % "_".join(map(str, o["q_coefficients"])) if o.get("q_coefficients") else ""))


def projections(g):
    """independent contravariant components at the cell centres (global arrays); NaN where undefined"""
    v, fp = g["vars"], g["extras"]["fieldpts"]
    R = v["Rxy"]
    nx, ny = R.shape
    hy, Bp, Bt = v["hy"], v["Bpxy"], v["Btxy"]
    cx = fp["curlR"] * fp["psiR"] + fp["curlZ"] * fp["psiZ"]
    # radial grid direction e_x from the xlow points of the same cell (what calcBeta measures)
    Rx, Zx = v["Rxy_xlow"], v["Zxy_xlow"]
    Ry, Zy = v["Rxy_ylow"], v["Zxy_ylow"]
    cy = np.full(R.shape, np.nan)
    meta = g["extras"]["meshmeta"]
    for rid, (sx, sy) in meta["region_indices"].items():
        x0, x1, y0, y1 = sx.start, sx.stop, sy.start, sy.stop
        if x1 - x0 < 2 or y1 - y0 < 2:
            continue
        xs, ys = slice(x0, x1 - 1), slice(y0, y1 - 1)
        ex = np.array([Rx[x0 + 1:x1, ys] - Rx[xs, ys], Zx[x0 + 1:x1, ys] - Zx[xs, ys]])
        ex /= np.sqrt((ex ** 2).sum(0))
        gp = np.array([fp["psiR"][xs, ys], fp["psiZ"][xs, ys]])
        gph = gp / np.sqrt((gp ** 2).sum(0))
        if g["spec"].get("options", {}).get("orthogonal", True):
            # orthogonal grid: grad y is the poloidal gradient of magnitude 1/hy (the radial grid line follows grad psi, C04)
            ex = gph
        cosb = np.abs((ex * gph).sum(0))
        n = np.array([ex[1], -ex[0]])
        ey = np.array([Ry[xs, y0 + 1:y1] - Ry[xs, ys], Zy[xs, y0 + 1:y1] - Zy[xs, ys]])
        sgn = np.sign((n * ey).sum(0))
        n = n * sgn
        grady = n / (hy[xs, ys] * cosb)
        cy[xs, ys] = fp["curlR"][xs, ys] * grady[0] + fp["curlZ"][xs, ys] * grady[1]
    cz = fp["curlzeta"] / R - Bt * hy / (Bp * R) * cy
    return cx, cy, cz


def oracle(res, g, kind):
    v = g["vars"]
    name = gname(g, kind)
    spec = {"spec": g["spec"]}
    cx, cy, cz = projections(g)
    B = v["Bxy"]
    want = {"curl_bOverB_x": cx, "curl_bOverB_y": cy, "curl_bOverB_z": cz, "bxcvx": B / 2 * cx, "bxcvy": B / 2 * cy, "bxcvz": B / 2 * cz}
    ok = True
    stats = {}
    for k in OUT:
        got = v[k]
        w = want[k]
        m = np.isfinite(w) & np.isfinite(got)
        if not m.any():
            continue
        scale = np.nanmax(np.abs(w[m]))
        if scale == 0:
            continue
        err = np.abs(got[m] - w[m]) / scale
        sign_bad = int(((got[m] * w[m] < 0) & (np.abs(w[m]) > 0.05 * scale)).sum())
        stats[k] = {"max_rel": float(err.max()), "median_rel": float(np.median(err)), "p90_rel": float(np.percentile(err, 90)), "opposite_sign_cells": sign_bad, "cells": int(m.sum())}
        # the cells where fpol varies (inside the tabulated profile): terms proportional to fpol' live only there
        fpp = g["extras"]["fieldpts"].get("fp")
        if fpp is not None and kind != "rz":
            mc = m & (np.abs(fpp) > 1e-9 * max(1e-300, float(np.nanmax(np.abs(fpp)))))
            if mc.any() and np.nanmax(np.abs(w[mc])) > 0:
                ec = np.abs(got[mc] - w[mc]) / np.nanmax(np.abs(w[mc]))
                stats[k].update({"fpolprime_cells": int(mc.sum()), "fpolprime_cells_max_rel": float(ec.max()), "fpolprime_cells_median_rel": float(np.median(ec))})
        if kind == "xyfine":
            continue
        if kind == "rz":
            if err.max() > 2e-5:
                ok = False
                res.violation("rz:%s:%s" % (k, "nonorth" if "nonorth" in name else "orth"),
                              "%s differs from the independent projection of curl(b/B) by %.3g of its range (%d cells of opposite sign) [%s]" % (
                                  k, err.max(), sign_bad, name), spec)
        else:
            # x-y form: discretisation error of DDX/DDY on a coarse grid; the sign and the bulk must agree
            # (on the unchanged tree these two grids give max <= 0.12, median <= 0.008 of the range; a term missing from a component is an
            # O(1) error that does not shrink with the cells, see the resolution pair of the thorough tier)
            if sign_bad > 0.1 * m.sum() or np.median(err) > 0.03 or err.max() > 0.2:
                ok = False
                res.violation("xy:%s:bpsign%+d" % (k, int(np.sign(np.nanmean(v["Bpxy"])))),
                              "x-y form %s disagrees with curl(b/B) projected on the gradient: %d of %d cells of opposite sign, median error "
                              "%.3g, largest error %.3g of range [%s]" % (k, sign_bad, int(m.sum()), float(np.median(err)), float(err.max()), name), spec)
    res.extra.setdefault("projection_errors", {})[name] = stats
    return ok


def correspondence(g, lines, pend):
    v, fp = g["vars"], g["extras"]["fieldpts"]
    orth = g["spec"].get("options", {}).get("orthogonal", True)
    beta = g["extras"].get("beta", {})
    bps = g["extras"]["bpsign"]
    meta = g["extras"]["meshmeta"]
    h = vlib.f2hex
    r = vlib.rng("c07-" + gname(g, "rz"))
    tb = np.zeros_like(v["Rxy"]) if orth else beta["tanBeta"]["centre"]
    idx = []
    for rid, (sx, sy) in meta["region_indices"].items():
        for x in range(sx.start, sx.stop):
            for y in range(sy.start, sy.stop):
                idx.append((x, y, bps[rid]))
    r.shuffle(idx)
    for x, y, s in idx[:150]:
        vals = [v["Rxy"][x, y], v["Zxy"][x, y], fp["BR"][x, y], fp["BZ"][x, y], fp["f"][x, y], fp["fp"][x, y], fp["pRR"][x, y], fp["pZZ"][x, y],
                fp["pRZ"][x, y], v["Bpxy"][x, y], v["Btxy"][x, y], v["Bxy"][x, y], v["hy"][x, y], tb[x, y], s]
        if not all(np.isfinite(vals)):
            continue
        lines.append("c07 %s %s" % ("rz_orth" if orth else "rz_nonorth", " ".join(h(t) for t in vals)))
        pend.append((gname(g, "rz"), x, y, [v[k][x, y] for k in OUT]))


def run(res, tier):
    import gridlab

    res.rule = ("real grids with varying fpol: orthogonal (bpsign -1 and +1), non-orthogonal, both curvature_type values; oracle = central-"
                "difference curl of b/B (h=1e-5) from the equilibrium's field functions projected on grad psi, on grad y built from the measured "
                "radial grid direction with magnitude 1/(hy cos beta), and on grad zeta - (Bt hy/(Bp R)) grad y, at every cell centre that has "
                "both x-faces in its region; correspondence = written values vs Float twins of the GENERATED R-Z formulas at sampled cells. "
                "distinct by (grid, component, cell)")
    res.trusted += ["the independent oracle uses the same interpolant (spline/DCT) as the code: consistency of that interpolant is C18"]
    lines, pend = [], []
    sp = specs(tier)
    for (kind, _), g in zip(sp, gridlab.get([s for _, s in sp])):
        name = gname(g, kind)
        if g["error"]:
            res.case(key=("grid-refused", name, g["error"][0]), nontrivial=False)
            res.extra.setdefault("refused", []).append([name, g["error"][0], g["error"][1][:300]])
            continue
        res.case(key=("grid", name), nontrivial=True, sample={"grid": name, "nx": int(g["vars"]["nx"]), "ny": int(g["vars"]["ny"])})
        if oracle(res, g, kind):
            res.traces += 1
        if kind == "rz" and not res.gen_error:
            correspondence(g, lines, pend)
    # convergence of the x-y form: halving every cell must reduce the worst disagreement of each component (second order: a factor 4;
    # a factor 0.6 is demanded); a term that is missing or wrong leaves an error that does not shrink
    pe = res.extra.get("projection_errors", {})
    if "xy/lsn" in pe and "xyfine/lsn" in pe:
        conv = {}
        for k in OUT:
            if k in pe["xy/lsn"] and k in pe["xyfine/lsn"]:
                # the 90th percentile over the cells: the few cells that touch the X-point never converge (the largest error sits there
                # at every resolution) and are not what the property's "discretisation error of the grid" is about
                c, f_ = pe["xy/lsn"][k]["p90_rel"], pe["xyfine/lsn"][k]["p90_rel"]
                conv[k] = {"coarse_p90": c, "fine_p90": f_, "coarse_max": pe["xy/lsn"][k]["max_rel"], "fine_max": pe["xyfine/lsn"][k]["max_rel"]}
                if f_ > 0.6 * c + 1e-4:
                    res.violation("xy-no-convergence:%s" % k, "x-y form %s: the 90th percentile of the disagreement with the projection of curl(b/B) is %.3g of the range "
                                  "on the grid and %.3g with every cell halved: it does not shrink like a discretisation error" % (k, c, f_), {"specs": [s2 for kd, s2 in sp if kd in ("xy", "xyfine")][:3]})
        res.extra["xy_convergence"] = conv
    if res.gen_error:
        res.broken("translator could not regenerate the model (fail-closed)", res.gen_error)
        return
    try:
        mo = vlib.lean_driver(lines) if lines else []
    except Exception as ex:
        res.broken("generated model does not build / run", str(ex)[-800:])
        return
    worst = 0.0
    for (name, x, y, want), m in zip(pend, mo):
        got = [vlib.hex2f(t) for t in m.split()]
        res.case(key=("pt", name, x, y), nontrivial=True)
        e = max(abs(a - b) / max(1e-300, abs(a), abs(b)) if (a or b) else 0.0 for a, b in zip(got, want))
        worst = max(worst, e)
        if e > 1e-9:
            res.broken("written curvature differs from the Float twin of the generated formulas on the same point values",
                       {"grid": name, "x": x, "y": y, "file": want, "lean": got})
        else:
            res.traces += 1
    res.extra["max_rel_diff_file_vs_generated"] = worst


def replay(rep):
    import gridlab

    g = gridlab.get([rep["payload"]["spec"]])[0]
    if g["error"]:
        print("REPLAY: generation refused", g["error"][:2])
        return 0
    r = vlib.Result("C07", "quick")
    kind = "xy" if "x-y" in str(g["spec"].get("options", {}).get("curvature_type", "")) else "rz"
    ok = oracle(r, g, kind)
    for wid, what, _ in r.violations:
        print("REPLAY:", wid, what)
    return 0 if ok else 1
