"""C01 — every grid point lies on its flux surface.
Generated operation lists / fillRZ slicing (py/gen/gen_pipeline.py -> Gen/Pipeline.lean) + hand model of the refinement control flow
and of fillRZ (Model/Refine.lean), replayed against the real PsiContour.refinePointNewton / refinePoint / getRefined and
MeshRegion.fillRZ; direct oracle: psi of the equilibrium's interpolant at every written position of real grids."""
import contextlib
import io
import warnings

import numpy as np

import vlib

W2 = [(1.2, -0.5), (1.2, 0.5), (1.8, 0.5), (1.8, -0.5)]
# expected psi_vals index offset per written position variable: value at x index i is psi_vals[2*i + off]
OFFS = {"": 1, "_xlow": 0, "_ylow": 1, "_corners": 0, "_lower_right_corners": 2, "_upper_right_corners": 2, "_upper_left_corners": 0}
# which region corner each pin flag excludes, per variable: (variable suffix, x index, y index)
PIN = {"ll": ("_corners", 0, 0), "lr": ("_lower_right_corners", -1, 0), "ul": ("_upper_left_corners", 0, -1), "ur": ("_upper_right_corners", -1, -1)}


def pre(res):
    from gen import gen_pipeline

    try:
        changed = gen_pipeline.main()
        res.extra["generated"] = {"file": "lean/HypnoModel/Gen/Pipeline.lean", "changed_since_last_run": bool(changed)}
    except Exception as e:
        res.extra["generated"] = {"error": "%s: %s" % (type(e).__name__, e)}
        res.gen_error = "%s: %s" % (type(e).__name__, e)


# ------------------------------------------------------------------------------------------------ model correspondence
def quiet():
    st = contextlib.ExitStack()
    st.enter_context(warnings.catch_warnings())
    warnings.simplefilter("ignore")
    st.enter_context(contextlib.redirect_stdout(io.StringIO()))
    return st


def corr_newton(res, rng, n):
    from hypnotoad.core.equilibrium import PsiContour, Point2D, SolutionError

    class Stub(PsiContour):
        """only `psival` is set: whatever helpers refinePointNewton is split into are the real ones"""

        def __init__(self):
            pass

    lines, expect = [], []
    kinds = {"same": 0, "conv": 0, "fail": 0}
    for _ in range(n):
        atol = rng.choice([2e-8, 1e-6, 1e-10, 1e-3])
        c = [rng.uniform(-2, 2), rng.choice([1.0, -1.0]) * rng.uniform(0.05, 3), rng.uniform(-3, 3) * rng.choice([0, 1, 1]), rng.uniform(-20, 20) * rng.choice([0, 0, 1])]
        r0, tR = rng.uniform(0.5, 2.5), rng.choice([1.0, -1.0]) * rng.uniform(0.01, 1.0)
        psi = (lambda c: lambda R, Z: c[0] + c[1] * R + c[2] * R * R + c[3] * R * R * R)(c)
        off = rng.choice([0.0, 1e-9, 1e-7, 1e-4, 1e-2, 0.3, 2.0]) * rng.choice([1, -1])
        psival = float(psi(r0, 0.0)) + off
        if rng.random() < 0.1:
            psival = rng.choice([0.0, 1e3 * psival])
        st = Stub()
        st.psival = psival
        p = Point2D(r0, 0.0)
        try:
            out = PsiContour.refinePointNewton(st, p, Point2D(tR, 0.0), psi=psi, width=0.1, atol=atol)
            exp = "same" if out is p else "conv " + vlib.f2hex(float(out.R))
        except SolutionError:
            exp = "fail"
        except ZeroDivisionError:
            continue
        kinds[exp.split()[0]] += 1
        lines.append("c01n " + " ".join(vlib.f2hex(x) for x in [atol, psival, r0, tR] + c))
        expect.append(exp)
    res.extra.setdefault("inputs", {})["newton"] = kinds
    return lines, expect, "newton"


def corr_methods(res, rng, n):
    from hypnotoad.core.equilibrium import PsiContour, Point2D, SolutionError

    names = ["newton", "line", "integrate", "integrate+newton", "none"]
    lines, expect = [], []
    hist = {}
    for _ in range(n):
        ms = [rng.choice(names) for _ in range(rng.randint(1, 4))]
        oc = {k: rng.choice(["ok", "fail"]) for k in ("n", "l", "i")}
        hp = rng.random() < 0.9

        class Stub(PsiContour):
            """a PsiContour whose three elementary refinement methods are replaced (instance attributes shadow the methods); everything
            else — refinePoint itself and whatever helpers it is split into — is the real code"""

            def __init__(self):
                pass

        st = Stub()
        st.psival = 1.0 if hp else None
        st.user_options = None

        def mk(o, k):
            def m(p, tangent, *, psi, width, atol):
                if o != "ok":
                    raise SolutionError("x")
                return Point2D(p.R + k, 0)
            return m

        st.refinePointNewton, st.refinePointLinesearch, st.refinePointIntegrate = mk(oc["n"], 1), mk(oc["l"], 10), mk(oc["i"], 100)
        try:
            out = PsiContour.refinePoint(st, Point2D(0, 0), Point2D(1, 0), psi=None, width=0.1, atol=1e-8, methods=ms if len(ms) > 1 or rng.random() < 0.5 else ms[0])
            exp = str(int(out.R))
        except SolutionError:
            exp = "error"
        except Exception as e:  # the real code no longer runs on the stub: reported as a broken correspondence, not as a crash
            exp = "stub-failure:%s" % type(e).__name__
        hist[exp] = hist.get(exp, 0) + 1
        lines.append("c01m %d %s %s %s %s" % (hp, ",".join(ms), oc["n"], oc["l"], oc["i"]))
        expect.append(exp)
    res.extra.setdefault("inputs", {})["methods"] = hist
    return lines, expect, "methods"


def corr_getrefined(res, rng, n):
    from hypnotoad.core.equilibrium import PsiContour, Point2D, SolutionError

    lines, expect = [], []
    hist = {"ok": 0, "error": 0, "skip": 0}
    for _ in range(n):
        npt = rng.randint(2, 9)
        pts = sorted(rng.sample(range(1, 60), npt))
        fail_at = rng.choice(pts) if rng.random() < 0.1 else 999
        skip = rng.random() < 0.5
        with quiet():
            c = PsiContour(points=[Point2D(float(v), 0.0) for v in pts], psival=1.0, settings={}, Rrange=(0, 100), Zrange=(-1, 1))
        c.startInd = rng.randint(0, npt - 1)
        c.endInd = rng.choice([rng.randint(c.startInd, npt - 1), rng.randint(c.startInd, npt - 1) - npt])

        def rp(p, tangent, *, width=None, atol=None, **kw):
            if int(p.R) == fail_at:
                raise SolutionError("x")
            return Point2D(p.R * 1000 + tangent.R, 0.0)

        c.refinePoint = rp
        try:
            with quiet():
                out = c.getRefined(skip_endpoints=skip)
            exp = " ".join(str(int(p.R)) for p in out.points)
            hist["ok"] += 1
            hist["skip"] += skip
        except SolutionError:
            exp = "error"
            hist["error"] += 1
        lines.append("c01g %d %d %d %d %s" % (skip, c.startInd, c.endInd, fail_at, " ".join(map(str, pts))))
        expect.append(exp)
    res.extra.setdefault("inputs", {})["getRefined"] = hist
    return lines, expect, "getRefined"


def corr_fillrz(res, rng, n):
    from hypnotoad.core.mesh import MeshRegion
    from hypnotoad.core.equilibrium import Point2D

    lines, expect = [], []
    for _ in range(n):
        nx, ny = rng.randint(1, 4), rng.randint(1, 5)
        nr, nc = 2 * nx + 1, 2 * ny + 1
        mat = [[1000 * i + j + 1 for j in range(nc)] for i in range(nr)]

        class Stub(MeshRegion):
            """a MeshRegion with only the attributes fillRZ reads; helper methods fillRZ may be split into are the real ones"""

            def __init__(self):
                pass

        class ER:
            separatrix_radial_index = 1

        st, er = Stub(), ER()
        st.nx, st.ny = nx, ny
        st.contours = [[Point2D(float(v), -float(v)) for v in row] for row in mat]
        st.radialIndex = rng.randint(0, 2)
        pins = {k: (rng.randint(70000, 70099) if rng.random() < 0.4 else None) for k in ("sI", "sO", "eI", "eO")}
        er.xPointsAtStart = [None] * 4
        er.xPointsAtEnd = [None] * 4
        for k, lst, off in (("sI", er.xPointsAtStart, 0), ("sO", er.xPointsAtStart, 1), ("eI", er.xPointsAtEnd, 0), ("eO", er.xPointsAtEnd, 1)):
            if pins[k] is not None:
                lst[st.radialIndex + off] = Point2D(float(pins[k]), -float(pins[k]))
        st.equilibriumRegion = er
        try:
            MeshRegion.fillRZ(st)
        except Exception as e:  # the real code no longer runs on the stub: a broken correspondence, not a crash of the check
            lines.append("c01f %d %d %s %s" % (nr, nc, " ".join("-" if pins[k] is None else str(pins[k]) for k in ("sI", "sO", "eI", "eO")),
                                               " ".join(str(v) for row in mat for v in row)))
            expect.append("stub-failure:%s" % type(e).__name__)
            continue
        parts = []
        for loc in ("centre", "xlow", "ylow", "corners"):
            R, Z = getattr(st.Rxy, loc), getattr(st.Zxy, loc)
            if not np.array_equal(R, -Z):
                res.broken("fillRZ writes different points to Rxy and Zxy at " + loc, {"nx": nx, "ny": ny})
            parts.append(";".join(" ".join(str(int(v)) for v in row) for row in R))
        lines.append("c01f %d %d %s %s" % (nr, nc, " ".join("-" if pins[k] is None else str(pins[k]) for k in ("sI", "sO", "eI", "eO")),
                                           " ".join(str(v) for row in mat for v in row)))
        expect.append(" | ".join(parts))
    return lines, expect, "fillRZ"


def correspondence(res, tier):
    rng = vlib.rng("C01-corr")
    k = 1 if tier == "quick" else 8
    batches = [corr_newton(res, rng, 250 * k), corr_methods(res, rng, 150 * k), corr_getrefined(res, rng, 120 * k), corr_fillrz(res, rng, 60 * k)]
    lines = [ln for b in batches for ln in b[0]]
    out = vlib.lean_driver(lines)
    i = 0
    for ls, ex, name in batches:
        bad = None
        for ln, e in zip(ls, ex):
            res.case(key=(name, e.split()[0] if name != "fillRZ" else len(e)), nontrivial=True)
            if out[i].strip() != e and bad is None:
                bad = (ln, e, out[i])
            i += 1
        if bad:
            res.broken("model of %s differs from the implementation" % name, {"line": bad[0], "implementation": bad[1][:300], "model": bad[2][:300]})
        else:
            res.traces += len(ls)


# ------------------------------------------------------------------------------------------------ oracle on real grids
def specs_for(tier):
    import gridlab

    ex = ["onsurface"]
    S = [gridlab.tokamak_spec("lsn", extract=ex),
         gridlab.tokamak_spec("cdn", options={"orthogonal": False}, extract=ex),
         gridlab.tokamak_spec("lsn", options={"orthogonal": False, "number_of_processors": 2}, wall=W2, extract=ex),
         gridlab.tokamak_spec("udn", extract=ex),
         gridlab.tokamak_spec("udn", options={"psinorm_sol": 1.1, "psinorm_sol_inner": 1.06}, extract=ex),   # different inner / outer SOL ranges
         # a large-flux equilibrium (psi x 15): corrections in psi during refinement are large compared with the tolerances
         gridlab.tokamak_spec("lsn", options={"orthogonal": False}, wall=W2, psi_sign=15.0, extract=ex),
         # a tolerance tighter than what the integration step of "integrate+newton" reaches: the Newton polish has to do the work (or fail over)
         gridlab.tokamak_spec("lsn", options={"orthogonal": False, "refine_atol": 1.0e-10}, wall=W2, extract=ex),
         gridlab.circular_spec(extract=ex)]
    # a grid on which no two options that could be confused coincide (see gridlab.odd_spec)
    S.append(gridlab.odd_spec("lsn", True, extract=ex))
    if tier == "thorough":
        for geo in ("usn", "cdn", "ldn", "udn2"):
            S.append(gridlab.tokamak_spec(geo, extract=ex))
        for geo in ("ldn", "udn"):
            S.append(gridlab.tokamak_spec(geo, options={"orthogonal": False}, extract=ex))
        S.append(gridlab.tokamak_spec("lsn", options={"orthogonal": False}, wall=W2, refinelog=True, extract=ex))
        S.append(gridlab.tokamak_spec("usn", options={"orthogonal": False, "number_of_processors": 3}, wall=W2, extract=ex))
        S.append(gridlab.tokamak_spec("lsn", options={"psi_interpolation_method": "dct"}, extract=ex))
        S.append(gridlab.tokamak_spec("lsn", options={"y_boundary_guards": 0}, extract=ex))
        S.append(gridlab.tokamak_spec("cdn", options={"y_boundary_guards": 2, "nx_core": 3, "nx_sol": 1}, extract=ex))
        S.append(gridlab.tokamak_spec("lsn", options={"psinorm_core": 0.8, "psinorm_sol": 1.15, "psinorm_pf": 0.85, "nx_core": 3}, extract=ex))
        S.append(gridlab.tokamak_spec("cdn", options={"orthogonal": False, "nonorthogonal_spacing_method": "poloidal_orthogonal_combined"}, extract=ex))
        S.append(gridlab.tokamak_spec("lsn", psi_sign=-1.0, extract=ex))
        S.append(gridlab.tokamak_spec("lsn", options={"refine_atol": 1e-6, "refine_methods": "line"}, extract=ex))
        S.append(gridlab.circular_spec(options={"number_of_processors": 1, "limiter": True}, extract=ex))
    if tier == "thorough":
        S.append(gridlab.odd_spec("cdn", False, extract=ex))
    return S


def tag(sp):
    keep = ("orthogonal", "number_of_processors", "psi_interpolation_method", "y_boundary_guards", "nonorthogonal_spacing_method", "refine_methods", "limiter")
    return "%s %s%s" % (sp.get("geometry", "circular"), {k: v for k, v in sp["options"].items() if k in keep and v is not True or k == "orthogonal" and v is False},
                        (" psi x %g" % sp["psi_sign"]) if sp.get("psi_sign", 1.0) != 1.0 else "")


def oracle(res, tier):
    import gridlab

    specs = specs_for(tier)
    out = gridlab.get(specs)
    worst_all = 0.0
    for sp, o in zip(specs, out):
        t = tag(sp)
        if o["error"]:
            res.extra.setdefault("refused", []).append([t, str(o["error"][:2])[:200]])
            continue
        on = o["extras"]["onsurface"]
        atol = on["refine_atol"]
        xp = on["xpoints"]
        v = o["vars"]
        worst = 0.0
        worst_pin = 0.0
        for suf in OFFS:
            R, Z = on["pos"][suf]
            if not (np.array_equal(v["Rxy" + suf], R) and np.array_equal(v["Zxy" + suf], Z)):
                res.violation("file-positions" + suf, "%s: Rxy%s/Zxy%s in the grid file are not the positions held by the mesh" % (t, suf, suf), {"spec": sp})
        for rid, r in on["regions"].items():
            sx, sy = r["slice"]
            pv = r["psi_vals"]
            nx = (len(pv) - 1) // 2
            res.case(key=(t, r["name"]), nontrivial=True)
            if not np.allclose(r["contour_psival"], pv, rtol=0, atol=0):
                res.violation("psival-mismatch", "%s region %s: contour psival differs from the radial psi grid" % (t, r["name"]), {"spec": sp, "region": r["name"]})
            for suf, off in OFFS.items():
                ps = on["psi"][suf][sx, sy]
                exp = pv[off:off + 2 * nx:2][:, None]
                err = np.abs(ps - exp)
                bound = atol * np.maximum(1.0, np.abs(exp)) + 1e-12
                excl = np.zeros(err.shape, bool)
                for flag, (psuf, ix, iy) in PIN.items():
                    if suf == psuf and r["pinned"][flag]:
                        # a corner pinned to an X-point is not refined, but the X-point it is pinned to must be the one on this radial
                        # index's own surface (psi_sep of *that* X-point): it is judged with the same bound, against the pin's psi
                        excl[ix, iy] = True
                        epin = float(err[ix, iy])
                        worst_pin = max(worst_pin, epin)
                        # (pinned corners are exempt from the tolerance — e.g. with the dct interpolant psi at the X-point differs by 1e-5 from
                        # the separatrix value, which find_critical takes from its own spline — but not from being pinned to the right X-point:
                        # no other X-point of the equilibrium may be nearer in psi to this radial index's surface)
                        others = [abs(q - float(exp[ix, 0])) for q in on.get("xpoints_psi", [])]
                        if epin > float(bound[ix, 0]) and others and min(others) < epin - float(bound[ix, 0]):
                            R, Z = on["pos"][suf]
                            res.violation("pinned-off-surface:%s" % t, "%s region %s: the corner pinned to an X-point, (%.6f, %.6f), has psi=%.9g but its radial "
                                          "index has psi=%.9g (|diff|=%.2e): pinned to an X-point of a different surface"
                                          % (t, r["name"], R[sx, sy][ix, iy], Z[sx, sy][ix, iy], ps[ix, iy], exp[ix, 0], epin), {"spec": sp, "region": r["name"]})
                        R, Z = on["pos"][suf]
                        pr, pz = R[sx, sy][ix, iy], Z[sx, sy][ix, iy]
                        if not any(abs(pr - a) < 1e-9 and abs(pz - b) < 1e-9 for a, b in xp):
                            res.violation("pinned-not-xpoint", "%s region %s: corner excluded as pinned is not at an X-point" % (t, r["name"]), {"spec": sp})
                bad = (err > bound) & ~excl
                worst = max(worst, float(np.nanmax(np.where(excl, 0, err))))
                if bad.any() and atol < 2.0e-8 and float(np.nanmax(np.where(bad, err, 0.0))) <= 5.0e-9 * max(1.0, float(np.nanmax(np.abs(exp)))):
                    # refine_atol tighter than the default and the misses are at the accuracy floor (~1e-9) of the last-resort method
                    # refinePointIntegrate, which by its own documentation "does not respect atol": a finding of its own, kept apart from
                    # points that are off their surface by more than that
                    res.violation("tight-refine_atol-not-reached", "%s region %s: with refine_atol=%.1e %d points of Rxy%s are off their flux surface by up to %.2e "
                                  "(the fallback method refinePointIntegrate does not respect atol)" % (t, r["name"], atol, int(bad.sum()), suf, float(np.nanmax(np.where(bad, err, 0.0)))),
                                  {"spec": sp, "region": r["name"], "location": suf})
                elif bad.any():
                    i, j = np.argwhere(bad)[0]
                    R, Z = on["pos"][suf]
                    res.violation("off-surface:%s:%s" % (t, suf or "centre"),
                                  "%s region %s: point (%.6f, %.6f) of Rxy%s has psi=%.9g but its radial index has psi=%.9g (|diff|=%.2e > %.1e); %d such points"
                                  % (t, r["name"], R[sx, sy][i, j], Z[sx, sy][i, j], suf, ps[i, j], exp[i, 0], err[i, j], bound[i, 0], int(bad.sum())), {"spec": sp, "region": r["name"], "location": suf})
            px = v["psixy"][sx, sy]
            e2 = np.abs(px - pv[1::2][:, None])
            if (e2 > atol * np.maximum(1.0, np.abs(pv[1::2][:, None])) + 1e-12).any():
                res.violation("psixy:%s" % t, "%s region %s: psixy differs from the radial psi grid / varies along y by %.2e" % (t, r["name"], float(e2.max())), {"spec": sp})
        res.traces += 1
        worst_all = max(worst_all, worst)
        res.extra.setdefault("worst_abs_psi_error", {})[t] = worst
        res.extra.setdefault("worst_pinned_corner_psi_error", {})[t] = worst_pin
        if "refinelog" in o["extras"]:
            res.extra.setdefault("refine_methods_used", {})[t] = o["extras"]["refinelog"]["counts"]
    res.extra["worst_overall"] = worst_all


def run(res, tier):
    res.rule = ("model ops replayed on the real refinePointNewton (bit-exact on cubic psi), refinePoint (method lists), getRefined and fillRZ; "
                "real grids: |psi(R,Z) - psi_vals[ix]| <= refine_atol*max(1,|psi|) at the 7 written position arrays of every region, pinned corners "
                "excluded only if they sit on an X-point, file arrays identical to the mesh arrays, psixy constant along y. distinct by (op kind, outcome) / (grid, region)")
    res.trusted += ["the equilibrium's own interpolant is the reference psi (its accuracy is C18's subject)",
                    "convergence of Newton / solve_ivp / brentq is not proved: the theorem is the post-condition of the accepted results"]
    correspondence(res, tier)
    oracle(res, tier)


def replay(rep):
    print("REPLAY payload:", rep.get("payload"))
    return 1
