"""C15 — regridding is history independent.
Hand model Model/Regrid.lean (skeleton fixed at region creation, recorded / per-region options, placement a function of skeleton and
settings; regions re-created when the spacing method changes), tied to the code by running real redistributePoints sequences:
bookkeeping of the recorded and per-region options against the model, and the final grid against a mesh built from scratch."""
import numpy as np

import vlib

METHODS = ["combined", "poloidal_orthogonal_combined", "perp_orthogonal_combined", "orthogonal"]
W2 = [(1.2, -0.5), (1.2, 0.5), (1.8, 0.5), (1.8, -0.5)]
FIELDS = ["hy", "Bpxy", "Bxy", "g11", "g22", "g33", "g12", "g23", "J", "zShift", "poloidal_distance", "dy", "dx", "psixy"]


def random_setting(r):
    s = {}
    k = r.random()
    if k < 0.15:
        return s                                     # back to the defaults
    if r.random() < 0.45:
        s["nonorthogonal_spacing_method"] = r.choice(METHODS[:2] * 4 + METHODS[2:])
    if r.random() < 0.5:
        s["nonorthogonal_radial_range_power"] = r.choice([1.0, 3.0, 1.5])
    if r.random() < 0.4:
        s["nonorthogonal_xpoint_poloidal_spacing_length"] = r.choice([0.05, 0.1, 0.2])
    if r.random() < 0.3:
        s["nonorthogonal_target_all_poloidal_spacing_length"] = r.choice([0.3, 0.15])
    if r.random() < 0.25:
        s["nonorthogonal_xpoint_poloidal_spacing_range"] = r.choice([0.05, 0.02])
    return s


def numeric_code(s):
    """an integer standing for the numeric part of a settings dict (the model only needs equality of numeric parts)"""
    t = tuple(sorted((k, v) for k, v in s.items() if k != "nonorthogonal_spacing_method"))
    return t


def run(res, tier):
    import gridlab

    res.rule = ("random redistributePoints sequences (length 1-4: method changes, numeric changes, empty dict = defaults, repeats, returning to earlier "
                "settings, a non-nonorthogonal key) on non-orthogonal cdn / lsn meshes: final grid vs a mesh built from scratch with the last settings "
                "(positions at all locations within 2e-7 m, fields within 1e-5 relative), recorded and per-region options vs the model after the sequence, "
                "other settings untouched. distinct by (geometry, sequence)")
    res.trusted += ["numpy/scipy determinism; the placement of points is a function of skeleton and settings only is *checked* here, not proved"]
    rng = vlib.rng("C15")
    nseq = 12 if tier == "quick" else 37
    cases = []
    fixed = [("cdn", {}, [{"nonorthogonal_target_all_poloidal_spacing_length": 0.3}, {"nonorthogonal_target_all_poloidal_spacing_length": 0.15},
                          {"nonorthogonal_xpoint_poloidal_spacing_range": 0.02}]),
             ("cdn", {}, [{"nonorthogonal_radial_range_power": 3.0}, {}]),
             ("cdn", {}, [{"nonorthogonal_spacing_method": "poloidal_orthogonal_combined"}]),
             ("cdn", {"nonorthogonal_spacing_method": "poloidal_orthogonal_combined"}, [{"nonorthogonal_xpoint_poloidal_spacing_length": 0.1}, {}]),
             # the method stays, only a spacing length changes (the separatrix distribution depends on it for this method)
             ("cdn", {"nonorthogonal_spacing_method": "poloidal_orthogonal_combined"},
              [{"nonorthogonal_spacing_method": "poloidal_orthogonal_combined", "nonorthogonal_xpoint_poloidal_spacing_length": 0.1}]),
             # the same settings twice, and a return to the initial method after another one
             ("cdn", {}, [{"nonorthogonal_radial_range_power": 3.0}, {"nonorthogonal_radial_range_power": 3.0}]),
             ("cdn", {}, [{"nonorthogonal_spacing_method": "poloidal_orthogonal_combined"}, {"nonorthogonal_spacing_method": "combined"}])]
    # a step that is refused part-way (a target spacing length no spacing function can honour fails in a *late* region, after the early
    # regions have been re-created), followed by a return to the initial settings / to other settings
    FAIL = {"nonorthogonal_xpoint_poloidal_spacing_length": 0.5, "nonorthogonal_target_outer_lower_poloidal_spacing_length": 50.0, "__may_fail__": True}
    fixed += [("lsn", {}, [dict(FAIL), {}]),
              ("lsn", {}, [dict(FAIL), {"nonorthogonal_radial_range_power": 3.0}])]
    # general (not non-orthogonal) settings from which defaults of non-orthogonal options are derived: the derived defaults must be the same
    # after a redistribution as in a mesh built from scratch
    GEN = {"target_all_poloidal_spacing_length": 0.3, "xpoint_poloidal_spacing_length": 0.1}
    POC = "poloidal_orthogonal_combined"
    fixed += [("cdn", {}, [{"nonorthogonal_spacing_method": POC}], GEN)]
    general = {}
    for c_ in fixed:
        g, o0, seq = c_[:3]
        if len(c_) > 3:
            general[len(cases)] = dict(c_[3])
        cases.append((g, o0, seq))
    while len(cases) < nseq:
        g = rng.choice(["cdn", "cdn", "lsn", "ldn"]) if tier == "thorough" else rng.choice(["cdn", "cdn", "lsn"])
        o0 = random_setting(rng) if rng.random() < 0.5 else {}
        seq = [random_setting(rng) for _ in range(rng.randint(1, 4 if tier == "thorough" else 3))]
        if rng.random() < 0.3 and len(seq) >= 2:
            seq[-1] = dict(seq[0])                   # return to an earlier setting
        if rng.random() < 0.2:
            seq[rng.randrange(len(seq))]["nx_core"] = 5   # a setting that is not a nonorthogonal_* one
        cases.append((g, o0, seq))
    specs = []
    for kc_, (g, o0, seq) in enumerate(cases):
        base = {"orthogonal": False}
        base.update(general.get(kc_, {}))
        kw = {"wall": W2} if g == "lsn" else {}
        a = dict(base)
        a.update(o0)
        final = {k: v for k, v in seq[-1].items() if k.startswith("nonorthogonal_")}
        assert not seq[-1].get("__may_fail__")
        b = dict(base)
        b.update(final)
        specs.append(gridlab.tokamak_spec(g, options=a, redistribute=seq, extract=["regions", "meshmeta"], **kw))
        specs.append(gridlab.tokamak_spec(g, options=b, **kw))
    out = gridlab.get(specs)
    lines, meta = [], []
    for k, (g, o0, seq) in enumerate(cases):
        A, B = out[2 * k], out[2 * k + 1]
        t = "%s %s -> %s" % (g, o0, seq)
        res.case(key=t, nontrivial=True, sample={"geometry": g, "initial": o0, "sequence": seq})
        if A["error"] or B["error"]:
            res.extra.setdefault("refused", []).append([t[:200], str((A["error"] or B["error"])[:2])[:160], "sequence" if A["error"] else "fresh"])
            fs = A.get("failing_step")
            if A["error"] and not B["error"] and (fs == "after-sequence" or fs == len(seq) - 1):
                # the final settings are accepted from scratch, but not at the end of the history
                res.violation("history-outcome", "%s: a mesh built from scratch with the final settings is generated, but after the sequence %s raises %s: %s"
                              % (t, "the last step" if fs != "after-sequence" else "geometry()", A["error"][0], A["error"][1][:120]),
                              {"geometry": g, "initial": o0, "sequence": seq})
            continue
        va, vb = A["vars"], B["vars"]
        # boundary (guard) cells beyond the targets
        guard = np.zeros(va["Rxy"].shape, bool)
        ng = int(A["spec"]["options"].get("y_boundary_guards", 0))
        for rid, r in A["extras"]["regions"].items():
            sx, sy = A["extras"]["meshmeta"]["region_indices"][rid]
            if ng and r["connections"].get("lower") is None:
                guard[sx, sy.start:sy.start + ng] = True
            if ng and r["connections"].get("upper") is None:
                guard[sx, sy.stop - ng:sy.stop] = True
        worst, pos_bad = 0.0, np.zeros(va["Rxy"].shape, bool)
        for suf in ("", "_xlow", "_ylow", "_corners", "_lower_right_corners", "_upper_right_corners", "_upper_left_corners"):
            dd = np.hypot(va["Rxy" + suf] - vb["Rxy" + suf], va["Zxy" + suf] - vb["Zxy" + suf])
            worst = max(worst, float(np.max(dd)))
            pos_bad |= dd > 2e-7
        wf, wname, wguard = 0.0, "", False
        for name in FIELDS:
            for suf in ("", "_xlow", "_ylow"):
                if name + suf in va and va[name + suf].shape == vb[name + suf].shape:
                    a, b = va[name + suf], vb[name + suf]
                    fin = np.isfinite(a) & np.isfinite(b)
                    if not fin.any():
                        continue
                    e = float(np.max(np.abs(a[fin] - b[fin]))) / max(float(np.max(np.abs(b[fin]))), 1e-300)
                    if e > wf:
                        wf, wname = e, name + suf
                        bad = fin & (np.abs(a - b) > 1e-5 * max(float(np.max(np.abs(b[fin]))), 1e-300))
                        wguard = bool(bad.any() and not (bad & ~guard).any())
        res.extra.setdefault("worst", {})[t[:160]] = {"position_m": worst, "field_rel": wf, "field": wname}
        if worst > 2e-7:
            only_guard = not (pos_bad & ~guard).any()
            res.violation("history-positions:%s" % ("target-guard-cells-only" if only_guard else
                                                    "method-change" if any("nonorthogonal_spacing_method" in s for s in seq) else "numeric"),
                          "%s: after the sequence the grid differs from a mesh built from scratch with the final settings by %.2e m%s"
                          % (t, worst, " — only at points of the boundary cells beyond the targets" if only_guard else ""),
                          {"geometry": g, "initial": o0, "sequence": seq})
        elif wf > 1e-5:
            res.violation("history-fields:%s:%s" % (wname, "target-guard-cells-only" if wguard else "domain"),
                          "%s: %s differs from the fresh build by %.2e (relative)%s" % (t, wname, wf, " — only in the boundary cells beyond the targets" if wguard else ""),
                          {"geometry": g, "initial": o0, "sequence": seq})
        else:
            res.traces += 1
        # bookkeeping against the model
        rec, reg = A.get("recorded_nonorthogonal_options"), A.get("region_nonorthogonal_options")
        if any(st.get("__may_fail__") for st in seq):
            res.extra.setdefault("refused_steps", {})[t[:160]] = A.get("step_errors")
        if rec is None:
            continue
        stale = [n for n, ro in reg.items() if any(ro.get(kk) != rec.get(kk) for kk in rec)]
        if stale:
            kk = next(kk for kk in rec if reg[stale[0]].get(kk) != rec.get(kk))
            res.violation("region-options-stale", "%s: after the sequence region %s works with %s=%r while the recorded (written) option is %r"
                          % (t, stale[0], kk, reg[stale[0]].get(kk), rec.get(kk)), {"geometry": g, "initial": o0, "sequence": seq})
        if A["attrs"] if False else False:
            pass
        if any(st.get("__may_fail__") for st in seq):
            continue          # the Regrid model has no refused steps
        codes = {}
        allsets = [o0] + seq
        enc = []
        for s in allsets:
            m = METHODS.index(s.get("nonorthogonal_spacing_method", "combined"))
            n = codes.setdefault(numeric_code({kk: v for kk, v in s.items() if kk.startswith("nonorthogonal_")}), len(codes))
            enc += [m, n]
        lines.append("c15 " + " ".join(map(str, enc)))
        meta.append((t, METHODS.index(rec["nonorthogonal_spacing_method"]), enc))
        if "nx_core" in str(seq):
            nxc = int(va["ixseps1"]) if "ixseps1" in va else None
            if va["Rxy"].shape != vb["Rxy"].shape:
                res.violation("other-setting-changed", "%s: a non-nonorthogonal key in the settings changed the grid size" % t, {"sequence": seq})
    if lines:
        mo = vlib.lean_driver(lines)
        for (t, realm, enc), o in zip(meta, mo):
            f = dict(x.split("=") for x in o.split())
            if int(f["recorded"].split(",")[0]) != realm or f["same-as-fresh"] != "true" or f["region"] != f["recorded"]:
                res.broken("Regrid model differs from the implementation's bookkeeping", {"case": t, "model": o, "implementation_method": realm})
                break


def replay(rep):
    print("REPLAY payload:", rep.get("payload"))
    return 1
