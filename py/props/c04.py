"""C04 — orthogonal grids are orthogonal: radial grid lines follow grad(psi).
Generated orientation tests (py/gen/gen_pipeline.py -> Gen/Pipeline.lean) + hand model of followPerpendicular's case analysis and of
the assembly of contours (Model/Perp.lean), replayed against the real followPerpendicular on flux functions whose gradient flow is
known in closed form; direct oracle: every point of every orthogonal region against an independent tight-tolerance integration of
dr/dpsi = grad(psi)/|grad(psi)|^2 from the skeleton point with the same poloidal index; second-order angle test."""
import contextlib
import io
import warnings
from fractions import Fraction as F

import numpy as np

import vlib
from props.c01 import pre as _pre_pipeline  # (same generated file as C01)


def pre(res):
    _pre_pipeline(res)
    from gen import gen_follow

    try:
        changed = gen_follow.main()
        res.extra.setdefault("generated", {})["follow"] = {"file": "lean/HypnoModel/Gen/Follow.lean", "changed_since_last_run": bool(changed)}
    except Exception as e:  # fail closed
        res.extra.setdefault("generated", {})["follow_error"] = "%s: %s" % (type(e).__name__, e)
        res.gen_error = "%s: %s" % (type(e).__name__, e)


def tag(sp):
    keep = ("nx_inter_sep", "psinorm_sol", "psinorm_pf", "psinorm_core", "number_of_processors", "psi_interpolation_method", "follow_perpendicular_rtol")
    return "%s %s%s" % (sp.get("geometry", "circular"), {k: v for k, v in sp["options"].items() if k in keep}, (" psi x %g" % sp["psi_sign"]) if sp.get("psi_sign", 1.0) != 1.0 else "")


def corr_follow(res, tier):
    from hypnotoad.core.mesh import followPerpendicular
    from hypnotoad.core.equilibrium import Point2D

    rng = vlib.rng("C04-follow")
    n = 220 if tier == "quick" else 1500
    lines, real, hist = [], [], {"inc": 0, "dec": 0, "nonmono-refused": 0, "nonmono-ran": 0, "inside": 0, "at-end": 0, "outside": 0, "on-value": 0}
    kinds = [("psi=R^2", lambda R, Z: 0.5 / R, lambda R, Z: 0.0 * R, None),
             ("psi=R", lambda R, Z: 1.0 + 0.0 * R, lambda R, Z: 0.0 * R, lambda p0, psi0, v: (p0[0] + (v - psi0), p0[1])),
             ("psi=2Z", lambda R, Z: 0.0 * R, lambda R, Z: 0.5 + 0.0 * R, lambda p0, psi0, v: (p0[0], p0[1] + 0.5 * (v - psi0)))]
    for _ in range(n):
        m = rng.randint(2, 9)
        base = sorted(rng.sample(range(-40, 41), m))
        mode = rng.choice(["inc", "dec", "inc", "dec", "nonmono"])
        if mode == "dec":
            base = base[::-1]
        elif mode == "nonmono":
            rng.shuffle(base)
        vals = [F(b, 8) for b in base]
        where = rng.choice(["inside", "at-end", "outside", "on-value"])
        if where == "inside" and m >= 2:
            k = rng.randint(0, m - 2)
            psi0 = (vals[k] + vals[k + 1]) / 2
        elif where == "at-end":
            psi0 = rng.choice([vals[0], vals[-1]])
        elif where == "on-value":
            psi0 = rng.choice(vals)
        else:
            psi0 = rng.choice([min(vals) - F(rng.randint(1, 9), 8), max(vals) + F(rng.randint(1, 9), 8)])
        name, fR, fZ, exact = rng.choice(kinds)
        p0 = (rng.uniform(1, 2), rng.uniform(-1, 1))
        if name == "psi=R^2":
            # dR/dpsi = 1/(2R): R(psi) = sqrt(R0^2 + psi - psi0); keep the radicand positive over the whole request
            p0 = (float(np.sqrt(max(1.0, float(psi0 - min(min(vals), psi0)) + 1.0))), p0[1])
        try:
            with contextlib.redirect_stdout(io.StringIO()), warnings.catch_warnings():
                warnings.simplefilter("ignore")
                pts = followPerpendicular(0, Point2D(*p0), float(psi0), f_R=fR, f_Z=fZ, psivals=[float(v) for v in vals], rtol=1e-10, atol=1e-12)
        except (ValueError, AttributeError):
            hist["nonmono-refused" if mode == "nonmono" else mode] += 0
            if mode != "nonmono":
                res.violation("follow-refuses-monotone", "followPerpendicular raises on a strictly monotone psi list %s with psi0=%s" % (vals, psi0), {"psivals": [str(v) for v in vals], "psi0": str(psi0)})
            else:
                hist["nonmono-refused"] += 1
            continue
        hist[where] += 1
        hist["nonmono-ran" if mode == "nonmono" else mode] += 1
        # recover the psi value each returned point sits at (closed-form flow is injective in psi)
        got = []
        for q in pts:
            if name == "psi=R":
                got.append(float(psi0) + (q.R - p0[0]))
            elif name == "psi=R^2":
                got.append(float(psi0) + (q.R ** 2 - p0[0] ** 2))
            else:
                got.append(float(psi0) + 2.0 * (q.Z - p0[1]))
        lines.append("c04f %s %s" % (psi0, " ".join(str(v) for v in vals)))
        real.append((got, vals, psi0, mode, name))
    out = vlib.lean_driver(lines) if lines else []
    for (got, vals, psi0, mode, name), o in zip(real, out):
        model = [float(F(x)) for x in o.split()]
        res.case(key=("follow", mode, len(vals), psi0 < min(vals), psi0 > max(vals)), nontrivial=True)
        ok = len(model) == len(got) and all(abs(a - b) < 5e-6 for a, b in zip(model, got))  # (solve_ivp's dense output is less accurate than rtol)
        if not ok:
            if mode != "nonmono" and len(got) == len(vals) and any(abs(g - float(v)) > 1e-3 for g, v in zip(got, vals)):
                res.violation("follow-order", "followPerpendicular returns the points of a monotone psi list %s (psi0=%s) in the wrong order: %s"
                              % ([str(v) for v in vals], psi0, [round(g, 6) for g in got]), {"psivals": [str(v) for v in vals], "psi0": str(psi0), "flow": name})
            else:
                res.broken("model of followPerpendicular differs from the implementation", {"psivals": [str(v) for v in vals], "psi0": str(psi0), "implementation": got, "model": model})
            return
    res.traces += len(lines)
    res.extra.setdefault("inputs", {})["follow"] = hist


def specs_for(tier):
    S = specs_for0(tier)
    for sp in S:
        sp["extract_early"] = ["perp"]
    return S


def specs_for0(tier):
    import gridlab

    ex = []
    S = [gridlab.tokamak_spec("lsn", extract=ex), gridlab.tokamak_spec("udn2", options={"psinorm_sol": 1.3}, extract=ex), gridlab.tokamak_spec("ldn", extract=ex),
         # both separatrices inside the grid with 2 inter-separatrix surfaces / a narrow private flux range
         gridlab.tokamak_spec("udn2", options={"nx_inter_sep": 2, "psinorm_sol": 1.3, "psinorm_pf": 0.9}, extract=ex),
         gridlab.tokamak_spec("ldn", options={"nx_inter_sep": 1, "psinorm_sol": 1.1, "psinorm_pf": 0.95}, extract=ex),
         # tolerances tighter than the defaults: every radial line must honour them, whichever branch of followPerpendicular it takes
         gridlab.tokamak_spec("lsn", options={"follow_perpendicular_rtol": 1e-11, "follow_perpendicular_atol": 1e-11}, extract=ex),
         # a weak poloidal field (flux in mWb, TORPEX-like): 1/|grad psi| is a thousand times larger, nothing in the property depends on the
         # unit of psi (the X-point search needs its absolute |Bp|^2 tolerance scaled with it)
         gridlab.tokamak_spec("lsn", options={"xpoint_refine_atol": 1e-16}, psi_sign=1.0e-3, extract=ex)]
    # worker processes: the radial lines are followed in parallel (those near the X-point take longest and finish last) and must be assembled
    # under their own poloidal index
    S.append(gridlab.tokamak_spec("lsn", options={"number_of_processors": 3}, extract=ex))
    # a grid on which no two options that could be confused coincide (see gridlab.odd_spec)
    S.append(gridlab.odd_spec("lsn", True, extract=ex))
    if tier == "thorough":
        S += [gridlab.tokamak_spec(g, extract=ex) for g in ("usn", "cdn", "udn")]
        S.append(gridlab.tokamak_spec("lsn", options={"psinorm_core": 0.8, "psinorm_sol": 1.15, "psinorm_pf": 0.85, "nx_core": 3}, extract=ex))
        S.append(gridlab.tokamak_spec("cdn", options={"follow_perpendicular_rtol": 2e-6, "follow_perpendicular_atol": 1e-6}, extract=ex))
        S.append(gridlab.tokamak_spec("lsn", psi_sign=-1.0, extract=ex))
        S.append(gridlab.tokamak_spec("lsn", options={"psi_interpolation_method": "dct"}, extract=ex))
        S.append(gridlab.tokamak_spec("ldn", options={"number_of_processors": 2}, extract=ex))
        S.append(gridlab.circular_spec(extract=ex))
    return S


CORNER = {"ll": (0, 0), "lr": (-1, 0), "ul": (0, -1), "ur": (-1, -1)}


def oracle(res, tier):
    import gridlab

    specs = specs_for(tier)
    out = gridlab.get(specs)
    for sp, o in zip(specs, out):
        t = tag(sp)
        written = not o["error"]
        if o["error"]:
            res.extra.setdefault("refused", []).append([t, str(o["error"][:2])[:200]])
            if "perp" not in o.get("early", {}):
                continue
        tol = 250.0 * max(sp["options"].get("follow_perpendicular_rtol", 2e-8), sp["options"].get("follow_perpendicular_atol", 1e-8))
        # the written corner arrays: the upper corners of the last row of a region are the lower corners of the region above, i.e. points of
        # *its* radial lines (getRZBoundary); every corner of that row must be one, or the row zig-zags between two integral curves
        if written and "Rxy_upper_right_corners" in o["vars"]:
            from props.c08 import y_adjacent_corner_mismatch

            wl_, wr_, wh_ = y_adjacent_corner_mismatch(o["vars"])
            res.extra.setdefault("seam_corner_mismatch_m", {})[t] = {"left": wl_, "right": wr_}
            if max(wl_, wr_) > tol:
                res.violation("seam-corner:%s" % t, "%s: the upper %s corner of cell (x=%d, y=%d) is %.2e m from the lower %s corner of its poloidal successor (y=%d): the row "
                              "is not on one set of radial lines (tolerance %.1e)" % (t, wh_[3], wh_[0], wh_[1], max(wl_, wr_), wh_[3], wh_[2], tol), {"spec": sp})
        worst = 0.0
        for rid, r in o["early"]["perp"].items():
            d = np.array(r["dist"], dtype=float)
            res.case(key=(t, r["name"]), nontrivial=True)
            if len(set(r["lengths"])) != 1 or r["lengths"][0] != r["nskel"]:
                res.violation("assembly-shape", "%s region %s: contours do not have one point per skeleton point (%s vs %d)" % (t, r["name"], sorted(set(r["lengths"])), r["nskel"]), {"spec": sp})
                continue
            if np.isnan(d).any():
                res.extra.setdefault("reference_integration_failed", []).append([t, r["name"], int(np.isnan(d).sum())])
            for f, (a, b) in CORNER.items():
                if r["pinned"][f]:
                    d[(slice(0, 3) if a == 0 else slice(-3, None)), (slice(0, 3) if b == 0 else slice(-3, None))] = 0.0
            m = float(np.nanmax(d))
            worst = max(worst, m)
            if m > tol:
                i, j = np.unravel_index(np.nanargmax(d), d.shape)
                res.violation("off-gradient-line:%s:%s" % (t, r["name"].split("(")[0]),
                              "%s region %s: the point with radial index %d, poloidal index %d is %.2e m away from the grad(psi) line through skeleton point %d (tolerance %.1e); %d such points%s"
                              % (t, r["name"], i, j, m, j, tol, int((d > tol).sum()), "" if written else " [mesh constructed and plotted/usable through calculateRZ(); geometry() then refuses]"), {"spec": sp, "region": r["name"], "i": int(i), "j": int(j)})
        res.extra.setdefault("worst_distance_m", {})[t] = worst
        res.traces += 1


def angle_test(res, tier):
    """the radial chord across a cell is parallel to grad(psi) at the cell centre up to second order in the radial spacing:
    sin(angle) <= K (d/rho)^2 with d the chord length and rho the distance to the nearest X-point (the length scale on which the
    gradient lines curve). K is 0.09-0.135 on the unchanged code at nx = 2, 4, 8 (constant under refinement = second order); the
    check uses K = 0.5. (A first version compared the global maximum at two resolutions; that was a false alarm, the maximum sits next
    to the X-point where rho shrinks with the cells.)"""
    import gridlab

    specs = [gridlab.tokamak_spec("lsn", options=dict(nx_core=2, nx_sol=2), extract=["onsurface"]),
             gridlab.tokamak_spec("lsn", options=dict(nx_core=4, nx_sol=4), extract=["onsurface"])]
    if tier == "thorough":
        specs += [gridlab.tokamak_spec("cdn", options=dict(nx_core=n, nx_sol=n), extract=["onsurface"]) for n in (2, 4, 8)]
        specs += [gridlab.tokamak_spec("lsn", options=dict(nx_core=8, nx_sol=8), extract=["onsurface"])]
    out = gridlab.get(specs)
    for sp, o in zip(specs, out):
        t = tag(sp) + " nx=%d" % sp["options"]["nx_core"]
        res.case(key=("angle", t), nontrivial=True)
        if o["error"]:
            res.extra.setdefault("refused", []).append([t, str(o["error"][:2])[:200]])
            continue
        v = o["vars"]
        xp = o["extras"]["onsurface"]["xpoints"]
        kmax, smax = 0.0, 0.0
        for rid, r in o["extras"]["onsurface"]["regions"].items():
            sx, sy = r["slice"]
            Rl, Zl = v["Rxy_xlow"][sx, sy], v["Zxy_xlow"][sx, sy]
            if Rl.shape[0] < 2:
                continue
            cR, cZ = Rl[1:] - Rl[:-1], Zl[1:] - Zl[:-1]
            gR, gZ = -v["Bzxy"][sx, sy][:-1], v["Brxy"][sx, sy][:-1]
            d = np.hypot(cR, cZ)
            s = np.abs(cR * gZ - cZ * gR) / (d * np.hypot(gR, gZ))
            Rc, Zc = v["Rxy"][sx, sy][:-1], v["Zxy"][sx, sy][:-1]
            rho = np.min([np.hypot(Rc - a, Zc - b) for a, b in xp], axis=0) if xp else np.full(Rc.shape, 1.0)
            for f, (a, b) in CORNER.items():
                if r["pinned"][f]:
                    s[(slice(0, 1) if a == 0 else slice(-1, None)), (slice(0, 1) if b == 0 else slice(-1, None))] = 0.0
            k = s * (rho / d) ** 2
            kmax, smax = max(kmax, float(np.nanmax(k))), max(smax, float(np.nanmax(s)))
            if (k > 0.5).any():
                i, j = np.unravel_index(np.nanargmax(k), k.shape)
                res.violation("angle:%s" % sp["geometry"],
                              "%s region %s: radial chord of cell (%d,%d) makes sin(angle)=%.2e with grad(psi) at the cell centre, %.2f x (chord/rho)^2 (second order bound 0.5)"
                              % (t, r["name"], i, j, s[i, j], k[i, j]), {"spec": sp, "region": r["name"]})
        res.extra.setdefault("angle_constant_K", {})[t] = {"max_sin": smax, "max_K": kmax}
        res.traces += 1


def run(res, tier):
    res.rule = ("followPerpendicular replayed on closed-form flows for every ordering of the psi list and position of psi0; every point of every region of "
                "orthogonal grids within 250*max(follow_perpendicular_rtol, atol) m of an independent DOP853 integration (rtol 1e-11) from its skeleton "
                "point, 3x3 point blocks at X-point corners excluded; sin(chord, grad psi) <= 0.5 (chord/rho)^2 at every cell away from X-point corners. distinct by (ordering, length, position) / (grid, region)")
    res.trusted += ["scipy.integrate.solve_ivp (both as the code's integrator and, with DOP853 at tight tolerance, as the reference)"]
    corr_follow(res, tier)
    oracle(res, tier)
    angle_test(res, tier)


def replay(rep):
    print("REPLAY payload:", rep.get("payload"))
    return 1
