"""C12 — a valid grid or an explicit error; shipped reference inputs generate.
Executable validity predicate (documented variable set parsed from doc/grid-file.rst at run time, shapes, finiteness except the documented
NaN index sets decoded from the topology integers, hy, dy > 0, dx != 0, no folded cell) applied to every grid the real code writes for a stream
of inputs in and around the supported envelope; option rejection by the factories, by Mesh.__init__ and by the command-line scripts;
the shipped examples. Lean: Model/Valid.lean (the NaN index sets from the C08 topology model, the verdict function replayed on the
summaries)."""
import os
import re
import subprocess
import sys

import numpy as np

import vlib

CORNER_SUFFIXES = ("_corners", "_lower_right_corners", "_upper_right_corners", "_upper_left_corners")


def documented(repo=None):
    """names listed in doc/grid-file.rst: (scalars+1d, 2d arrays)"""
    txt = open(os.path.join(repo or vlib.REPO, "doc", "grid-file.rst")).read()
    i2d = txt.index("2D arrays\n---------")
    iprov = txt.index("Provenance tracking\n-------------------")

    def names(block):
        out = []
        for m in re.finditer(r"^   \* - ((?:``[^`]+``[,\s]*)+)", block, re.M):
            out += re.findall(r"``([^`]+)``", m.group(1))
        return out

    return names(txt[:i2d]), names(txt[i2d:iprov])


def cell_area2(v):
    ll = (v["Rxy_corners"], v["Zxy_corners"])
    lr = (v["Rxy_lower_right_corners"], v["Zxy_lower_right_corners"])
    ur = (v["Rxy_upper_right_corners"], v["Zxy_upper_right_corners"])
    ul = (v["Rxy_upper_left_corners"], v["Zxy_upper_left_corners"])
    a = 0.0
    for (r1, z1), (r2, z2) in ((ll, lr), (lr, ur), (ur, ul), (ul, ll)):
        a = a + (r2 - r1) * (z1 + z2)
    return a


def _seg_cross(p1, p2, p3, p4):
    """boolean array: the open segments p1p2 and p3p4 cross properly"""
    def orient(a, b, c):
        return (b[0] - a[0]) * (c[1] - a[1]) - (b[1] - a[1]) * (c[0] - a[0])
    d1, d2 = orient(p3, p4, p1), orient(p3, p4, p2)
    d3, d4 = orient(p1, p2, p3), orient(p1, p2, p4)
    return (d1 * d2 < 0) & (d3 * d4 < 0)


def cell_defects(v):
    """(minority orientation, bow-tie cells, torn corners): cells whose signed area has the opposite sign to the majority; cells whose
    opposite edges cross; corners on which two x-neighbouring cells (contiguous in x in every topology) disagree by more than 1e-6 m"""
    ll = (v["Rxy_corners"], v["Zxy_corners"])
    lr = (v["Rxy_lower_right_corners"], v["Zxy_lower_right_corners"])
    ur = (v["Rxy_upper_right_corners"], v["Zxy_upper_right_corners"])
    ul = (v["Rxy_upper_left_corners"], v["Zxy_upper_left_corners"])
    a = cell_area2(v)
    minority = int(min((a <= 0).sum(), (a >= 0).sum()))
    with np.errstate(all="ignore"):
        bow = int((_seg_cross(ll, lr, ur, ul) | _seg_cross(lr, ur, ul, ll)).sum())
        t1 = np.hypot(lr[0][:-1, :] - ll[0][1:, :], lr[1][:-1, :] - ll[1][1:, :])
        t2 = np.hypot(ur[0][:-1, :] - ul[0][1:, :], ur[1][:-1, :] - ul[1][1:, :])
    torn = int((t1 > 1e-6).sum() + (t2 > 1e-6).sum())
    worst = float(max(np.nanmax(t1), np.nanmax(t2))) if t1.size else 0.0
    return minority, bow, torn, worst


def core_mask(v):
    """(nx, ny) boolean: closed field lines (x < ixseps of the primary separatrix, y inside the core range, boundary cells included in y
    indexing as the file stores them)"""
    nx, ny = v["Rxy"].shape
    myg = int(v["y_boundary_guards"])
    j11, j21, j12, j22 = (int(v[k]) for k in ("jyseps1_1", "jyseps2_1", "jyseps1_2", "jyseps2_2"))
    ix = min(int(v["ixseps1"]), int(v["ixseps2"]))
    m = np.zeros((nx, ny), bool)
    if ix <= 0:
        return m
    if j21 != j12:
        m[:ix, j11 + myg + 1:j21 + myg + 1] = True
        m[:ix, j12 + 3 * myg + 1:j22 + 3 * myg + 1] = True
    else:
        m[:ix, j11 + myg + 1:j22 + myg + 1] = True
    return m


def radial_order_defects(v, cp):
    """cells folded over in flux space: psi at the outer corner of a y-face does not lie on the side of the inner corner that dx says
    (dx = d psi per cell in x); cp = psi of the equilibrium at the four corner arrays"""
    if not cp or "dx" not in v:
        return 0, None
    sg = np.sign(v["dx"])
    lo = (cp["_lower_right_corners"] - cp["_corners"]) * sg
    up = (cp["_upper_right_corners"] - cp["_upper_left_corners"]) * sg
    with np.errstate(all="ignore"):
        bad = (np.isfinite(lo) & (lo <= 0)) | (np.isfinite(up) & (up <= 0))
    n = int(bad.sum())
    return n, (tuple(int(t) for t in np.argwhere(bad)[0]) if n else None)


def core_area_defects(v):
    """x runs outwards: on closed field lines the area enclosed by the flux surface of radial index x (polygon through the cell centres in y order)
    grows with x. Returns the number of neighbouring x pairs for which it does not, and the areas."""
    cm = core_mask(v)
    if not cm.any():
        return 0, []
    areas = []
    for x in range(cm.shape[0]):
        ys = np.where(cm[x])[0]
        if len(ys) < 3:
            continue
        R, Z = v["Rxy"][x, ys], v["Zxy"][x, ys]
        if not (np.isfinite(R).all() and np.isfinite(Z).all()):
            continue
        areas.append(abs(0.5 * float(np.sum(R * np.roll(Z, -1) - np.roll(R, -1) * Z))))
    return sum(1 for a, b in zip(areas[:-1], areas[1:]) if not b > a), areas


def summary(v, has_pressure, has_fpol, tokamak=True, orthogonal=True, cornerpsi=None):
    """everything the verdict needs, as plain data (this is also what is handed to the Lean verdict function)"""
    sc, arr2 = documented()
    nx, ny = v["Rxy"].shape
    s = {"missing": [], "badshape": [], "nonfinite": {}, "nonpositive": {}, "zero": {}, "fold": 0, "nx": nx, "ny": ny}
    for n in sc:
        if n in ("psi_axis_gfile", "psi_bdry_gfile", "y-coord", "closed_wall_R", "closed_wall_Z"):
            continue                      # written only for geqdsk input / when a wall exists; y-coord is BOUT++'s name for the index coordinate
        if n in ("psi_axis", "psi_bdry") and not tokamak:
            continue                      # writeGridfile writes them `if hasattr(equilibrium, ...)`: the circular case has no axis/boundary flux
        if n not in v:
            s["missing"].append(n)
    for n in arr2:
        if n == "pressure" and not has_pressure:
            continue
        if n == "hthe" and not orthogonal:
            continue                      # "Also write hy as hthe for backward compatibility" — orthogonal grids only, by design
        names = [n] if n.endswith(CORNER_SUFFIXES) or n == "penalty_mask" else [n, n + "_xlow", n + "_ylow"]
        for k in names:
            if k not in v:
                s["missing"].append(k)
            elif v[k].shape != (nx, ny):
                s["badshape"].append(k)
    core = core_mask(v)
    for k, a in v.items():
        if getattr(a, "dtype", None) is None or a.dtype.kind != "f":
            continue
        bad = ~np.isfinite(a)
        if not bad.any():
            continue
        base = k.replace("_xlow", "").replace("_ylow", "")
        if base == "chi" and a.shape == (nx, ny):
            allowed = ~core
            kind = "core"
        elif base in ("ShiftAngle", "total_poloidal_distance") and a.ndim == 1:
            # defined exactly on the radial indices that have closed flux surfaces (none at all for an isolated X-point)
            allowed = ~core.any(axis=1)[: a.shape[0]] if a.shape[0] <= core.shape[0] else np.zeros(a.shape, bool)
            kind = "core"
        else:
            allowed = np.zeros(a.shape, bool)
            kind = "anywhere"
        # the documented exceptions are NaN ("undefined" / "not calculated"): an infinity is never documented, wherever it is
        n_bad = int(((bad & ~allowed) | np.isinf(a)).sum())
        if n_bad:
            s["nonfinite"][k] = {"count": n_bad, "of": int(a.size), "where": kind, "inf": bool(np.isinf(a).any())}
    for base in ("hy", "dy"):
        for suf in ("", "_xlow", "_ylow"):
            k = base + suf
            if k in v and np.isfinite(v[k]).all() and (v[k] <= 0).any():
                s["nonpositive"][k] = int((v[k] <= 0).sum())
    for suf in ("", "_xlow", "_ylow"):
        k = "dx" + suf
        if k in v and (v[k] == 0).any():
            s["zero"][k] = int((v[k] == 0).sum())
    if all(("Rxy" + c) in v for c in CORNER_SUFFIXES):
        minority, bow, torn, worst = cell_defects(v)
        # chord polygons of coarse non-orthogonal cells next to an X-point can have crossing x-edges although the curvilinear cell is not
        # folded (cdn, 4 poloidal cells per core half): crossing chords are recorded, not judged
        nrad, where = radial_order_defects(v, cornerpsi)
        ninv, areas = core_area_defects(v)
        s["fold"] = minority + torn + nrad + ninv
        s["fold_detail"] = {"opposite_orientation": minority, "self_intersecting": bow, "torn_x_corners": torn, "worst_x_corner_gap_m": worst,
                            "radially_reversed": nrad, "first_radially_reversed": where,
                            "core_surfaces_not_growing_with_x": ninv}
    return s


def verdict(s, bt_zero):
    """list of (witness id, text); empty = valid"""
    out = []
    if s["missing"]:
        out.append(("missing:" + s["missing"][0], "documented variable(s) missing: %s" % s["missing"][:8]))
    if s["badshape"]:
        out.append(("shape:" + s["badshape"][0], "variable(s) with the wrong shape: %s" % s["badshape"][:8]))
    for k, d in sorted(s["nonfinite"].items()):
        base = k.replace("_xlow", "").replace("_ylow", "")
        if base == "chi" and bt_zero:
            out.append(("chi-nan-core-Bt-zero", "%s is NaN on closed field lines (no toroidal field: ShiftAngle = 0, chi = 0/0)" % k))
        else:
            out.append(("nonfinite:" + k, "%s has %d non-finite values (%s) outside the documented NaN set" % (k, d["count"], "inf" if d["inf"] else "nan")))
    for k, n in sorted(s["nonpositive"].items()):
        out.append(("nonpositive:" + k, "%s <= 0 at %d points" % (k, n)))
    for k, n in sorted(s["zero"].items()):
        out.append(("zero:" + k, "%s is 0 at %d points" % (k, n)))
    if s["fold"]:
        d = s.get("fold_detail", {})
        out.append(("folded-cells", "%d cells have the opposite orientation to the rest (%d have crossing chord edges), %d corners differ "
                    "between the two x-neighbouring cells that share them (worst gap %.3g m), %d cells have a y-face whose outer corner is on the wrong side of "
                    "its inner corner in psi (first at %s), %d closed flux surfaces do not enclose more area than the one before them in x (grid inside out): "
                    "cells folded over / torn"
                    % (d.get("opposite_orientation", s["fold"]), d.get("self_intersecting", 0), d.get("torn_x_corners", 0), d.get("worst_x_corner_gap_m", 0.0),
                       d.get("radially_reversed", 0), d.get("first_radially_reversed"), d.get("core_surfaces_not_growing_with_x", 0))))
    return out


# ------------------------------------------------------------------------------------------------ input stream
def stream(tier):
    import gridlab

    S = []

    def add(name, sp, expect="any"):
        sp["timeout"] = 600
        sp["extract"] = list(sp.get("extract", [])) + ["cornerpsi"]
        S.append((name, sp, expect))

    add("lsn orth fpol", gridlab.tokamak_spec("lsn", fpol="linear", pressure="parab"))
    add("cdn nonorth fpol", gridlab.tokamak_spec("cdn", options={"orthogonal": False}, fpol="linear", pressure="parab"))
    add("lsn orth no-fpol", gridlab.tokamak_spec("lsn", fpol=None))
    add("circular", gridlab.circular_spec())
    add("circular r_inner > r_outer", gridlab.circular_spec(options={"number_of_processors": 1, "r_inner": 0.3, "r_outer": 0.1}))
    add("udn orth", gridlab.tokamak_spec("udn", fpol="const"))
    # slightly disconnected double nulls gridded as connected (nx_inter_sep = 0) with the inner SOL narrower than the outer one: accepted
    # only if the first gridded surface of BOTH SOLs lies beyond the second separatrix
    add("ldn as connected, narrow inner sol", gridlab.tokamak_spec("ldn", options={"nx_inter_sep": 0, "psinorm_sol": 1.3, "psinorm_sol_inner": 1.04}, fpol="const"))
    add("udn as connected, narrow inner sol", gridlab.tokamak_spec("udn", options={"nx_inter_sep": 0, "psinorm_sol": 1.3, "psinorm_sol_inner": 1.04}, fpol="const"))
    add("ldn as connected, wide sols", gridlab.tokamak_spec("ldn", options={"nx_inter_sep": 0, "psinorm_sol": 1.3, "psinorm_sol_inner": 1.25}, fpol="const"))
    # around the envelope
    add("lsn tiny ny", gridlab.tokamak_spec("lsn", options={"ny_inner_divertor": 1, "ny_outer_divertor": 1, "ny_sol": 2}, fpol="const"))
    add("lsn nx=1", gridlab.tokamak_spec("lsn", options={"nx_core": 1, "nx_sol": 1}, fpol="const"))
    add("lsn core beyond separatrix", gridlab.tokamak_spec("lsn", options={"psinorm_core": 1.05}, fpol="const"))
    add("lsn sol inside separatrix", gridlab.tokamak_spec("lsn", options={"psinorm_sol": 0.95}, fpol="const"))
    add("lsn huge target spacing", gridlab.tokamak_spec("lsn", options={"target_all_poloidal_spacing_length": 50.0}, fpol="const"))
    add("lsn tiny xpoint spacing", gridlab.tokamak_spec("lsn", options={"xpoint_poloidal_spacing_length": 1e-6}, fpol="const"))
    add("lsn smoothnl curvature", gridlab.tokamak_spec("lsn", options={"curvature_smoothing": "smoothnl"}, fpol="linear"))
    add("lsn smoothnl no-fpol", gridlab.tokamak_spec("lsn", options={"curvature_smoothing": "smoothnl"}, fpol=None))
    if tier == "thorough":
        for g in ("usn", "cdn", "ldn", "udn2"):
            add(g + " orth", gridlab.tokamak_spec(g, fpol="linear", pressure="parab"))
        add("lsn guards0", gridlab.tokamak_spec("lsn", options={"y_boundary_guards": 0}, fpol="const"))
        add("cdn guards3", gridlab.tokamak_spec("cdn", options={"y_boundary_guards": 3}, fpol="const"))
        add("lsn dct", gridlab.tokamak_spec("lsn", options={"psi_interpolation_method": "dct"}, fpol="const"))
        add("lsn wall at domain edge", gridlab.tokamak_spec("lsn", wall=[(1.0, -0.7), (1.0, 0.7), (2.0, 0.7), (2.0, -0.7)], fpol="const"))
        add("lsn wall cuts core", gridlab.tokamak_spec("lsn", wall=[(1.4, -0.45), (1.4, 0.45), (1.75, 0.45), (1.75, -0.45)], fpol="const"))
        add("lsn xy curvature", gridlab.tokamak_spec("lsn", options={"curvature_type": "curl(b/B) with x-y derivatives"}, fpol="linear"))
        add("cdn nonorth xy curvature", gridlab.tokamak_spec("cdn", options={"orthogonal": False, "curvature_type": "curl(b/B) with x-y derivatives"}, fpol="linear"))
        add("lsn shiftedmetric off", gridlab.tokamak_spec("lsn", options={"shiftedmetric": False}, fpol="linear"))
        add("lsn sqrt spacing", gridlab.tokamak_spec("lsn", options={"poloidal_spacing_method": "sqrt"}, fpol="const"))
        add("circular limiter", gridlab.circular_spec(options={"number_of_processors": 1, "limiter": True}))
        add("lsn reversed psi", gridlab.tokamak_spec("lsn", fpol="negconst", psi_sign=-1.0))
        add("lsn coarse fine contour", gridlab.tokamak_spec("lsn", options={"finecontour_Nfine": 8}, fpol="const"))
        add("lsn loose refine", gridlab.tokamak_spec("lsn", options={"refine_atol": 1e-3}, fpol="const"))
    # random points of the option space (mostly valid values, some at the edge of what can be gridded)
    rng = vlib.rng("C12-stream")
    for k in range(4 if tier == "quick" else 40):
        geo = rng.choice(["lsn", "lsn", "usn", "cdn", "ldn", "udn"])
        o = {"nx_core": rng.randint(1, 4), "nx_sol": rng.randint(1, 4), "ny_inner_divertor": rng.randint(1, 6), "ny_outer_divertor": rng.randint(1, 6),
             "ny_sol": rng.randint(2, 12), "y_boundary_guards": rng.choice([0, 1, 1, 2]),
             "psinorm_core": rng.choice([0.8, 0.9, 0.95, 0.99]), "psinorm_sol": rng.choice([1.02, 1.1, 1.2])}
        if geo in ("ldn", "udn"):
            o.update(nx_inter_sep=rng.choice([0, 1, 2]), psinorm_sol=rng.choice([1.1, 1.2, 1.3]))
        if rng.random() < 0.3:
            o["psi_interpolation_method"] = "dct"
        if rng.random() < 0.3:
            o["poloidal_spacing_method"] = rng.choice(["sqrt", "monotonic", "linear"])
        if rng.random() < 0.3:
            o["curvature_type"] = rng.choice(["curl(b/B)", "curl(b/B) with x-y derivatives", "bxkappa"])
        if rng.random() < 0.2:
            o["curvature_smoothing"] = "smoothnl"
        if rng.random() < 0.2:
            o["shiftedmetric"] = False
        if rng.random() < 0.3:
            o["xpoint_poloidal_spacing_length"] = rng.choice([0.01, 0.05, 0.3])
        if rng.random() < 0.3:
            o["target_all_poloidal_spacing_length"] = rng.choice([0.05, 0.3, 2.0])
        if rng.random() < 0.3:
            o["psi_spacing_separatrix_multiplier"] = rng.choice([0.2, 0.5, 2.0])
        kw = {"fpol": rng.choice(["const", "linear", "negconst", None]), "pressure": rng.choice([None, "parab"])}
        if rng.random() < 0.25 and geo in ("cdn", "ldn", "udn"):
            o["orthogonal"] = False
        if rng.random() < 0.2:
            kw["psi_sign"] = -1.0
        add("random %d: %s %s %s" % (k, geo, {a: b for a, b in sorted(o.items())}, {a: b for a, b in kw.items() if b not in (None,)}), gridlab.tokamak_spec(geo, options=o, **kw))
    return S


INVALID = [("nx_core", -2), ("nx_core", 2.5), ("y_boundary_guards", -1), ("orthogonal", "yes"), ("psi_interpolation_method", "cubic"),
           ("refine_methods", ["bogus"]), ("xpoint_offset", 2.0), ("finecontour_Nfine", -5), ("psinorm_core", "0.9"), ("curvature_type", "none"),
           ("poloidal_spacing_method", "quadratic"), ("number_of_processors", 0), ("refine_atol", -1.0), ("follow_perpendicular_rtol", -1.0),
           ("geometry_rtol", -1.0), ("nonorthogonal_spacing_method", "fixed_poloidal"), ("curvature_smoothing", "gaussian")]


def option_rejection(res):
    import contextlib
    import io
    import warnings
    from hypnotoad import tokamak
    from hypnotoad.core.mesh import BoutMesh
    from props.c14 import example
    import gridlab

    r1, z1, p2, p1 = example("lsn")
    accepted = []
    for k, val in INVALID:
        res.case(key=("invalid-option", k, str(val)), nontrivial=True)
        o = dict(gridlab.SMALL)
        o[k] = val
        try:
            with warnings.catch_warnings(), contextlib.redirect_stdout(io.StringIO()):
                warnings.simplefilter("ignore")
                eq = tokamak.TokamakEquilibrium(r1, z1, p2.copy(), p1.copy(), [], wall=list(gridlab.WALL), make_regions=False, settings=o, nonorthogonal_settings=o)
                BoutMesh.user_options_factory.create({kk: vv for kk, vv in o.items() if kk in BoutMesh.user_options_factory.defaults})
            accepted.append([k, val])
            del eq
        except (ValueError, TypeError):
            res.traces += 1
    res.extra["invalid_values_accepted_at_creation"] = accepted
    for k, val in accepted:
        res.violation("invalid-option-accepted:%s" % k, "the invalid setting %s=%r is accepted when the options are created" % (k, val), {"option": k, "value": val})
    inconsistent_options(res)


def inconsistent_options(res, tag="inconsistent-options"):
    """a Mesh may only be created with the option values its Equilibrium was created with (otherwise the file records settings the grid was
    not made with and cannot be reproduced from them)"""
    import contextlib
    import io
    import warnings
    import gridlab
    from hypnotoad import tokamak
    from hypnotoad.core.mesh import BoutMesh
    from props.c14 import example

    r1, z1, p2, p1 = example("lsn")
    # inconsistent equilibrium / mesh options: a Mesh may only be created with the values the Equilibrium was created with, however small
    # the difference (tolerances are small numbers: 1e-8 versus 1e-12 is a factor 10^4)
    o = dict(gridlab.SMALL)
    for k, v_eq, v_mesh in (("refine_atol", None, 1e-6), ("refine_atol", 1e-8, 1e-12), ("finecontour_atol", 1e-12, 1e-10), ("sfunc_checktol", 1e-13, 1e-9),
                            ("refine_width", 1e-5, 1.00001e-5), ("finecontour_Nfine", 40, 41)):
        res.case(key=(tag, k, v_eq, v_mesh), nontrivial=True)
        with warnings.catch_warnings(), contextlib.redirect_stdout(io.StringIO()):
            warnings.simplefilter("ignore")
            oe = dict(o) if v_eq is None else dict(o, **{k: v_eq})
            eq = tokamak.TokamakEquilibrium(r1, z1, p2.copy(), p1.copy(), [], wall=list(gridlab.WALL), make_regions=False, settings=oe)
            o2 = dict(oe, **{k: v_mesh})
            try:
                BoutMesh(eq, o2)
                accepted_ = True
            except ValueError as e:
                accepted_ = "changed since" not in str(e)
                why = str(e)[:160]
            except Exception as e:  # without regions the constructor cannot get past the consistency test any other way
                accepted_, why = True, "%s: %s" % (type(e).__name__, str(e)[:120])
        if accepted_:
            res.violation(tag + "-accepted:%s" % k, "BoutMesh accepts %s=%r for an equilibrium created with %s=%r%s" % (
                k, v_mesh, k, "the default" if v_eq is None else v_eq, "" if "why" not in dir() else ""), {"option": k, "equilibrium": v_eq, "mesh": v_mesh})
        else:
            res.traces += 1


def explicit_zero_limits(res):
    """psi shifted by a constant so that the psinorm = 1.1 surface is psi = 0: `psi_sol: 0.0` is a valid request (the grid must end there, as the
    file will record), `psi_core: 0.0` is an invalid one (a SOL surface) and must be rejected"""
    import contextlib
    import io
    import warnings
    from hypnotoad import tokamak
    import gridlab
    from props.c14 import example

    r1, z1, p2, p1 = example("lsn")
    o = dict(gridlab.SMALL)
    with warnings.catch_warnings(), contextlib.redirect_stdout(io.StringIO()):
        warnings.simplefilter("ignore")
        e0 = tokamak.TokamakEquilibrium(r1, z1, p2.copy(), p1.copy(), [], wall=list(gridlab.WALL), settings=dict(o))
    shift = float(e0.psi_axis + 1.1 * (e0.psi_bdry - e0.psi_axis))
    res.case(key=("psi_sol=0.0",), nontrivial=True)
    try:
        with warnings.catch_warnings(), contextlib.redirect_stdout(io.StringIO()):
            warnings.simplefilter("ignore")
            eq = tokamak.TokamakEquilibrium(r1, z1, p2 - shift, p1 - shift, [], wall=list(gridlab.WALL), settings=dict(o, psi_sol=0.0, psinorm_sol=1.2))
        ends = [float(r.psi_vals[-1][-1]) for n, r in eq.regions.items()]
        if any(abs(x) > 1e-12 for x in ends):
            res.violation("explicit-limit-ignored", "psi_sol = 0.0 is requested (and will be recorded in the file) but the radial grids end at psi = %r" % sorted(set(ends)), {"psi_shift": shift})
        else:
            res.traces += 1
    except Exception as e:
        res.extra.setdefault("refused", []).append(["psi_sol=0.0", str(e)[:140]])
    res.case(key=("psi_core=0.0 invalid",), nontrivial=True)
    try:
        with warnings.catch_warnings(), contextlib.redirect_stdout(io.StringIO()):
            warnings.simplefilter("ignore")
            tokamak.TokamakEquilibrium(r1, z1, p2 - shift, p1 - shift, [], wall=list(gridlab.WALL), settings=dict(o, psi_core=0.0))
        res.violation("invalid-limit-accepted", "psi_core = 0.0 names a surface outside the separatrix (psinorm 1.1) and is accepted", {"psi_shift": shift})
    except Exception:
        res.traces += 1


def cli_rejection(res):
    import yaml
    from hypnotoad.geqdsk import _geqdsk
    from props.c14 import example

    wd = os.path.join(vlib.WORK, "c12_cli")
    os.makedirs(wd, exist_ok=True)
    # a made-up name, and names that are options of the *other* generator only
    for script, args, inp, bad_name in (
            ("hypnotoad.scripts.hypnotoad_geqdsk", ["nofile.geqdsk", "in.yaml"], {"nx_core": 3, "not_an_option_of_hypnotoad": 1}, "not_an_option_of_hypnotoad"),
            ("hypnotoad.scripts.hypnotoad_circular", ["in.yaml"], {"nx": 3, "not_an_option_of_hypnotoad": 1}, "not_an_option_of_hypnotoad"),
            ("hypnotoad.scripts.hypnotoad_circular", ["in.yaml"], {"nx": 3, "psinorm_core": 0.9}, "psinorm_core"),
            ("hypnotoad.scripts.hypnotoad_circular", ["in.yaml"], {"ny_inner_divertor": 4}, "ny_inner_divertor"),
            ("hypnotoad.scripts.hypnotoad_geqdsk", ["nofile.geqdsk", "in.yaml"], {"nx_core": 3, "r_inner": 0.1}, "r_inner"),
            ("hypnotoad.scripts.hypnotoad_geqdsk", ["nofile.geqdsk", "in.yaml"], {"q_coefficients": [2.0]}, "q_coefficients")):
        res.case(key=("cli-unknown-option", script, bad_name), nontrivial=True)
        with open(os.path.join(wd, "in.yaml"), "w") as fh:
            yaml.safe_dump(inp, fh)
        p = subprocess.run([sys.executable, "-c", "import sys; sys.path.insert(0, %r); import %s as m; sys.argv=['x']+%r; m.main()" % (vlib.REPO, script, args)],
                           cwd=wd, stdout=subprocess.PIPE, stderr=subprocess.STDOUT, timeout=600)
        txt = p.stdout.decode()
        if p.returncode == 0:
            res.violation("cli-unknown-option-accepted:" + script.split(".")[-1], "%s runs to completion with the unknown option %s in the input file" % (script, bad_name), {"input": inp})
        elif bad_name not in txt:
            res.violation("cli-unknown-option-other-error:" + script.split(".")[-1], "%s fails for another reason before rejecting the unknown option: %s" % (script, txt[-200:]), {})
        else:
            res.traces += 1


def shipped_examples(res, tier):
    import gridlab
    from concurrent.futures import ThreadPoolExecutor

    geos = ["lsn", "cdn", "ldn"] if tier == "quick" else ["lsn", "usn", "cdn", "ldn", "udn", "udn2"]
    src = os.path.join(vlib.REPO, "examples", "tokamak")

    def one(g):
        wd = os.path.join(vlib.WORK, "c12_examples", vlib.source_hash(), g)
        out = os.path.join(wd, "grid.nc")
        if not os.path.exists(out):
            os.makedirs(wd, exist_ok=True)
            for f in os.listdir(src):
                if f.endswith(".yaml"):
                    open(os.path.join(wd, f), "w").write(open(os.path.join(src, f)).read())
            p = subprocess.run([sys.executable, os.path.join(src, "tokamak_example.py"), g, "--no-plot"], cwd=wd, env=dict(os.environ, PYTHONPATH=vlib.REPO, MPLBACKEND="Agg"),
                               stdout=subprocess.PIPE, stderr=subprocess.STDOUT, timeout=2400)
            if p.returncode != 0 or not os.path.exists(os.path.join(wd, "bout.grd.nc")):
                return g, None, p.stdout.decode()[-400:]
            os.replace(os.path.join(wd, "bout.grd.nc"), out)     # only complete files are ever seen under the cached name
        return g, out, ""

    with ThreadPoolExecutor(max_workers=6) as ex:
        results = list(ex.map(one, geos))
    for g, path, log in results:
        # netCDF4/HDF5 is not thread safe: the files are read here, one after the other
        v = gridlab.read_nc(path)[0] if path else None
        res.case(key=("shipped-example", g), nontrivial=True, sample={"example": "examples/tokamak " + g})
        if v is None:
            res.violation("shipped-example-fails:" + g, "examples/tokamak/tokamak_example.py %s does not generate: %s" % (g, log), {"geometry": g})
            continue
        for wid, text in verdict(summary(v, False, False), True):
            res.violation(wid, "shipped example %s: %s" % (g, text), {"example": g})
        res.traces += 1


def model_correspondence(res, grids, tier):
    """Lean verdict / chi mask / CLI acceptance replayed on what the real code produced"""
    import yaml
    from hypnotoad.cases import tokamak
    from hypnotoad.core.mesh import BoutMesh

    lines, expect, names = [], [], []
    for name, v, s, bt_zero in grids:
        # where chi is finite in the file (only meaningful with a toroidal field)
        if not bt_zero and "chi" in v:
            nx, ny = v["chi"].shape
            ints = [int(v[k]) for k in ("nx", "ny", "ixseps1", "ixseps2", "jyseps1_1", "jyseps2_1", "ny_inner", "jyseps1_2", "jyseps2_2", "y_boundary_guards")]
            for suf in ("", "_xlow", "_ylow"):
                lines.append("c12m " + " ".join(map(str, ints + [nx, ny])))
                expect.append(";".join("".join("1" if np.isfinite(x) else "0" for x in row) for row in v["chi" + suf]))
                names.append(("chi-defined-set" + suf, name))
        nf = sum(d["count"] for k, d in s["nonfinite"].items() if not (bt_zero and k.startswith("chi")))
        lines.append("c12v %d %d %d %d %d %d" % (len(s["missing"]), len(s["badshape"]), nf, sum(s["nonpositive"].values()), sum(s["zero"].values()), s["fold"]))
        expect.append("true" if not [w for w in verdict(s, bt_zero) if w[0] != "chi-nan-core-Bt-zero"] else "false")
        names.append(("verdict", name))
    # the scripts' acceptance rule against the real script
    ek = list(tokamak.TokamakEquilibrium.user_options_factory.defaults)
    nk = list(tokamak.TokamakEquilibrium.nonorthogonal_options_factory.defaults)
    mk = list(BoutMesh.user_options_factory.defaults)
    rng = vlib.rng("C12-cli")
    wd = os.path.join(vlib.WORK, "c12_cli")
    os.makedirs(wd, exist_ok=True)
    for it in range(6 if tier == "quick" else 30):
        given = rng.sample(ek, 2) + rng.sample(nk, 1) + rng.sample(mk, 1)
        if rng.random() < 0.5:
            given.append(rng.choice(["nx_cor", "Orthogonal", "ny_soll", "psinorm_core ", "grid_file"]))
        with open(os.path.join(wd, "in%d.yaml" % it), "w") as fh:
            yaml.safe_dump({k: 1 for k in given}, fh)
        # a missing geqdsk file is reported *after* the option check: FileNotFoundError = options accepted, ValueError naming the key = rejected
        p = subprocess.run([sys.executable, "-c", "import sys; sys.path.insert(0, %r); import hypnotoad.scripts.hypnotoad_geqdsk as m; sys.argv=['x','nofile.geqdsk','in%d.yaml']; m.main()" % (vlib.REPO, it)],
                           cwd=wd, stdout=subprocess.PIPE, stderr=subprocess.STDOUT, timeout=600)
        txt = p.stdout.decode()
        real = "false" if "not used" in txt else ("true" if "FileNotFoundError" in txt or "No such file" in txt else "other:" + txt[-120:])
        lines.append("c12c %s %s %s %s" % (",".join(ek), ",".join(nk), ",".join(mk), ",".join(k.replace(" ", "_sp_") for k in given)))
        expect.append(real)
        names.append(("cli-accepts", str(given[-1])))
    out = vlib.lean_driver(lines)
    for ln, ex, o, nm in zip(lines, expect, out, names):
        res.case(key=("model",) + nm, nontrivial=True)
        if o.strip() != ex:
            if nm[0].startswith("chi-defined-set"):
                res.violation("chi-defined-set:%s" % nm[0][15:], "%s: chi%s is finite/NaN at different points than the documented rule (finite exactly on closed field lines in the core) — file: %s  rule: %s"
                              % (nm[1], nm[0][15:], ex[:120], o.strip()[:120]), {"case": nm[1]})
            else:
                res.broken("Valid model differs from the implementation (%s)" % nm[0], {"line": ln[:300], "implementation": ex[:200], "model": o[:200]})
        else:
            res.traces += 1


def torpex_example(res):
    """examples/torpex-xpoint (needs sympy, which /venv lacks: installed offline from the wheelhouse into /verif/.pydeps)"""
    import gridlab

    deps = os.path.join(vlib.VERIF, ".pydeps")
    if not os.path.exists(os.path.join(deps, "sympy")):
        p = subprocess.run([sys.executable, "-m", "pip", "install", "--no-index", "--find-links", "/opt/veriftools/wheels", "--target", deps, "sympy", "mpmath"],
                           stdout=subprocess.PIPE, stderr=subprocess.STDOUT)
        if p.returncode != 0:
            res.extra["torpex"] = "sympy could not be installed offline: " + p.stdout.decode()[-200:]
            return
    src = os.path.join(vlib.REPO, "examples", "torpex-xpoint")
    for y in ("torpex-coils.yaml", "torpex-coils-nonorth.yaml"):
        wd = os.path.join(vlib.WORK, "c12_examples", vlib.source_hash(), y.replace(".yaml", ""))
        out = os.path.join(wd, "grid.nc")
        res.case(key=("shipped-example", y), nontrivial=True, sample={"example": "examples/torpex-xpoint " + y})
        if not os.path.exists(out):
            os.makedirs(wd, exist_ok=True)
            open(os.path.join(wd, y), "w").write(open(os.path.join(src, y)).read())
            p = subprocess.run([sys.executable, "-c", "import sys; sys.argv=['x', %r]; import hypnotoad.scripts.hypnotoad_torpex as m; m.main()" % y], cwd=wd,
                               env=dict(os.environ, PYTHONPATH=vlib.REPO + ":" + deps, MPLBACKEND="Agg"), stdout=subprocess.PIPE, stderr=subprocess.STDOUT, timeout=2400)
            made = [f for f in os.listdir(wd) if f.endswith(".nc")]
            if p.returncode != 0 or not made:
                res.violation("shipped-example-fails:" + y, "examples/torpex-xpoint/%s does not generate: %s" % (y, p.stdout.decode()[-300:]), {"example": y})
                continue
            os.replace(os.path.join(wd, made[0]), out)
        v = gridlab.read_nc(out)[0]
        for wid, text in verdict(summary(v, False, True, tokamak=False, orthogonal="nonorth" not in y), False):
            res.violation(wid, "shipped example %s: %s" % (y, text), {"example": y})
        res.traces += 1


def run(res, tier):
    import gridlab

    res.rule = ("every grid written for the input stream (supported configurations and unfavourable ones: tiny ny/nx, psi ranges across the separatrix, extreme "
                "spacing parameters, walls at/inside the domain edge, smoothing, coarse contours) is checked with the validity predicate — documented variables "
                "(doc/grid-file.rst) present at centre/xlow/ylow with shape (nx, ny), finite outside the documented NaN sets, hy, dy > 0, dx != 0, no folded cell; "
                "otherwise the run must end in an exception; invalid option values, inconsistent equilibrium/mesh options and unknown options in the scripts' input "
                "files must be rejected; shipped examples must generate valid grids. distinct by (case)")
    res.trusted += ["netCDF4 read-back of the written file", "doc/grid-file.rst as the list of documented variables"]
    S = stream(tier)
    out = gridlab.get([sp for _, sp, _ in S])
    hist = {"grid": 0, "exception": 0, "timeout": 0}
    grids = []
    for (name, sp, expect), o in zip(S, out):
        res.case(key=("stream", name), nontrivial=True, sample={"case": name})
        if o["error"]:
            kind = "timeout" if o["error"][0] == "Timeout" else "exception"
            hist[kind] += 1
            res.extra.setdefault("refused", []).append([name, str(o["error"][:2])[:140]])
            if o["error"][0] == "WorkerCrash":
                res.violation("crash:" + name, "%s: the generating process dies without a Python exception: %s" % (name, o["error"][1][-200:]), {"spec": sp})
            continue
        hist["grid"] += 1
        bt_zero = sp.get("fpol", "x") is None and sp.get("case") != "circular"
        sm = summary(o["vars"], sp.get("pressure") is not None, not bt_zero, tokamak=sp.get("case") != "circular",
                     orthogonal=sp["options"].get("orthogonal", True) is not False, cornerpsi=(o.get("extras") or {}).get("cornerpsi"))
        grids.append((name, o["vars"], sm, bt_zero))
        probs = verdict(sm, bt_zero)
        for wid, text in probs:
            res.violation(wid, "%s: a grid file is written without error but %s" % (name, text), {"spec": sp})
        if not probs:
            res.traces += 1
    res.extra["outcomes"] = hist
    model_correspondence(res, grids, tier)
    option_rejection(res)
    explicit_zero_limits(res)
    cli_rejection(res)
    shipped_examples(res, tier)
    if tier == "thorough":
        torpex_example(res)


def replay(rep):
    print("REPLAY payload:", rep.get("payload"))
    return 1
