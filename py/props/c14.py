"""C14 — deterministic, side-effect free, reproducible from the embedded inputs.
Lean model: HypnoModel/Model/Options.lean (options semantics / embedding), tied by the driver-free checks below on the real
optionsfactory objects; direct oracle: caller arrays unchanged, bit-identical rebuilds (fresh process vs after other builds in the same
interpreter), grid -> hypnotoad_recreate_inputs -> hypnotoad_geqdsk round trip."""
import contextlib
import io
import os
import shutil
import subprocess
import sys
import warnings

import numpy as np

import vlib

SKIP_VARS = {"hypnotoad_inputs", "hypnotoad_inputs_yaml", "Python_version", "module_versions", "hypnotoad_input_geqdsk_file_contents"}


def example(geo):
    ex = os.path.join(vlib.REPO, "examples", "tokamak")
    if ex not in sys.path:
        sys.path.insert(0, ex)
    import tokamak_example

    return tokamak_example.create_tokamak(geometry=geo)


def inputs_unchanged(res):
    from hypnotoad import tokamak

    optsets = [("default", {}), ("reverse_current", {"reverse_current": True}), ("psi_divide_twopi", {"psi_divide_twopi": True}),
               ("reverse_Bt", {"reverse_Bt": True}), ("all-three", {"reverse_current": True, "psi_divide_twopi": True, "reverse_Bt": True}),
               ("extrapolate", {"extrapolate_profiles": True, "psi_sol": None})]
    for geo in ("lsn", "ldn"):
        for name, o in optsets:
            r1, z1, p2, p1 = example(geo)
            nf = len(p1)
            t = np.linspace(0, 1, nf)
            fpol = 2.5 + 0.3 * t
            pres = 1.0e3 * (1 - t) ** 2 + 10.0
            o = dict(o)
            if "psi_sol" in o:
                o["psi_sol"] = float(p1[-1] + 0.2 * (p1[-1] - p1[0]))
            wall = [(1.25, -0.45), (1.25, 0.45), (1.75, 0.45), (1.75, -0.45)]
            arrays = {"R1D": r1, "Z1D": z1, "psi2D": p2, "psi1D": p1, "fpol1D": fpol, "pressure": pres}
            before = {k: v.copy() for k, v in arrays.items()}
            wall_before = list(wall)
            res.case(key=("inputs", geo, name), nontrivial=True, sample={"op": "construct TokamakEquilibrium", "geometry": geo, "options": name})
            try:
                with warnings.catch_warnings(), contextlib.redirect_stdout(io.StringIO()):
                    warnings.simplefilter("ignore")
                    tokamak.TokamakEquilibrium(r1, z1, p2, p1, fpol, pressure=pres, wall=wall, make_regions=False, settings=o)
            except Exception as ex:
                res.extra.setdefault("refused", []).append([geo, name, str(ex)[:120]])
                continue
            changed = [k for k in arrays if not np.array_equal(arrays[k], before[k])]
            if wall != wall_before:
                changed.append("wall")
            if changed:
                res.violation("inputs-modified:" + ("+".join(sorted(set(o) & {"reverse_current", "psi_divide_twopi", "reverse_Bt"})) or "default"),
                              "building an equilibrium with options %s modifies the caller's input arrays %s in place" % (name, changed),
                              {"geometry": geo, "options": o})
            else:
                res.traces += 1


def same_arrays(a, b):
    diffs = []
    for k in a["vars"]:
        if k in SKIP_VARS:
            continue
        x, y = a["vars"][k], b["vars"].get(k)
        if y is None or getattr(x, "shape", None) != getattr(y, "shape", None):
            diffs.append(k)
        elif getattr(x, "dtype", None) is not None and x.dtype.kind in "fiu":
            if not np.array_equal(x, y, equal_nan=(x.dtype.kind == "f")):
                diffs.append(k)
    return diffs


def determinism(res, tier):
    import gridlab

    base = gridlab.tokamak_spec("lsn", fpol="linear", pressure="parab")
    other = gridlab.tokamak_spec("cdn", fpol="const", options={"orthogonal": False})
    circ = gridlab.circular_spec()
    # a double null: its closed-field-line y-group consists of two regions, so the order in which groups and regions are visited matters
    dn = gridlab.tokamak_spec("cdn", fpol="const")
    specs = [base, dict(base, history=[base]), dict(base, history=[other]), dict(base, history=[circ, other]),
             dn, dict(dn, history=[dn]), dict(dn, history=[dn, dn]), dict(dn, history=[base, circ]),
             # another grid (without a pressure profile, other topology) generated between this grid's geometry() and its writeGridfile()
             dict(base, interleave=[circ]), dict(base, interleave=[other])]
    groups = [(0, [1, 2, 3, 8, 9]), (4, [5, 6, 7])]
    if tier == "thorough":
        b2 = gridlab.tokamak_spec("cdn", fpol="linear", options={"orthogonal": False})
        specs += [b2, dict(b2, history=[b2]), dict(b2, history=[base])]
        groups.append((10, [11, 12]))
        b3 = gridlab.tokamak_spec("ldn", fpol="linear")
        specs += [b3, dict(b3, history=[b3, b3]), dict(b3, history=[dn])]
        groups.append((13, [14, 15]))
    out = gridlab.get(specs, cache=True)
    for ref, others in groups:
        a = out[ref]
        for k in others:
            b = out[k]
            hist = [h.get("geometry", "circular") for h in specs[k].get("history", [])] + ["(interleaved) " + h.get("geometry", "circular") for h in specs[k].get("interleave", [])]
            res.case(key=("history", ref, tuple(hist)), nontrivial=True, sample={"op": "rebuild after history", "history": hist})
            if a["error"] or b["error"]:
                if bool(a["error"]) != bool(b["error"]):
                    res.violation("history-outcome", "generation succeeds/fails depending on earlier builds in the same interpreter: %r vs %r" % (
                        a["error"] and a["error"][:2], b["error"] and b["error"][:2]), {"history": hist})
                continue
            d = same_arrays(a, b)
            if d:
                res.violation("history-dependent" if hist != [specs[ref].get("geometry")] else "not-deterministic",
                              "arrays %s differ from a fresh-process build after building %s first in the same interpreter" % (d[:8], hist),
                              {"spec": specs[k]})
            else:
                res.traces += 1


def cli_roundtrip(res, tier):
    """grid -> hypnotoad_recreate_inputs -> hypnotoad_geqdsk regenerates the same grid"""
    from hypnotoad.geqdsk import _geqdsk
    from hypnotoad.cases import tokamak
    import gridlab
    import yaml

    wd = os.path.join(vlib.WORK, "c14_cli")
    shutil.rmtree(wd, ignore_errors=True)
    os.makedirs(wd)
    r1, z1, p2, p1 = example("lsn")
    nx, ny = p2.shape
    t = np.linspace(0, 1, nx)
    data = {"nx": nx, "ny": ny, "rdim": r1[-1] - r1[0], "zdim": z1[-1] - z1[0], "rcentr": 1.5, "bcentr": 2.0, "rleft": r1[0], "zmid": 0.5 * (z1[0] + z1[-1]),
            "rmagx": 1.5, "zmagx": 0.0, "simagx": float(p2.max()), "sibdry": float(p1[-1]), "cpasma": 1.0e6,
            "fpol": 2.5 + 0.3 * t, "pres": 1.0e3 * (1 - t) ** 2 + 10.0, "qpsi": 1.0 + 2.0 * t, "psi": p2,
            "rlim": np.array([1.25, 1.25, 1.75, 1.75]), "zlim": np.array([-0.45, 0.45, 0.45, -0.45])}
    # psi1D in a geqdsk runs linearly from simagx to sibdry: take both from the equilibrium itself
    with warnings.catch_warnings(), contextlib.redirect_stdout(io.StringIO()):
        warnings.simplefilter("ignore")
        eq0 = tokamak.TokamakEquilibrium(r1, z1, p2.copy(), p1.copy(), [], make_regions=False, settings={})
    data["simagx"] = float(eq0.psi_axis)
    data["sibdry"] = float(eq0.psi_sep[0])
    with open(os.path.join(wd, "in.geqdsk"), "w") as fh:
        _geqdsk.write(data, fh)
        # what EFIT appends after the limiter points (kvtor, rvtor, nmass) and a trailing comment: not used by the reader, but part of the
        # file that has to be embedded byte for byte
        fh.write("\n    0  0.170000000E+01    0\n ! written by a test harness; trailing text after the last value the parser needs\n\n")
    opts = dict(gridlab.SMALL, reverse_current=True, psi_interpolation_method="spline",
                xpoint_poloidal_spacing_length=0.05)
    with open(os.path.join(wd, "in.yaml"), "w") as fh:
        yaml.safe_dump(opts, fh)
    env = dict(os.environ, PYTHONPATH=vlib.REPO)
    res.case(key=("cli", "lsn", "reverse_current"), nontrivial=True, sample={"op": "geqdsk CLI -> recreate_inputs -> geqdsk CLI", "options": opts})

    def runpy(mod, args):
        p = subprocess.run([sys.executable, "-c", "import sys; sys.path.insert(0, %r); import %s as m; sys.argv=['x']+%r; m.main()" % (vlib.REPO, mod, args)],
                           cwd=wd, env=env, stdout=subprocess.PIPE, stderr=subprocess.STDOUT, timeout=900)
        return p.returncode, p.stdout.decode()[-1500:]

    rc, log = runpy("hypnotoad.scripts.hypnotoad_geqdsk", ["in.geqdsk", "in.yaml"])
    if rc == 0:
        os.rename(os.path.join(wd, "bout.grd.nc"), os.path.join(wd, "grid1.nc"))
    if rc != 0 or not os.path.exists(os.path.join(wd, "grid1.nc")):
        res.extra["cli_first_run"] = log
        res.violation("cli-first-run", "the command-line entry point fails on a synthesised geqdsk + yaml: %s" % log[-300:], {"options": opts})
        return
    rc, log = runpy("hypnotoad.scripts.hypnotoad_recreate_inputs", ["grid1.nc", "-g", "re.geqdsk", "-y", "re.yaml"])
    if rc != 0:
        res.violation("cli-recreate", "hypnotoad_recreate_inputs fails: %s" % log[-300:], {})
        return
    orig = open(os.path.join(wd, "in.geqdsk")).read()
    rec = open(os.path.join(wd, "re.geqdsk")).read()
    if orig != rec:
        res.violation("geqdsk-not-byte-exact", "the geqdsk text embedded in the grid file differs from the input file", {})
        return
    y = yaml.safe_load(open(os.path.join(wd, "re.yaml")))
    from hypnotoad.cases import tokamak
    from hypnotoad.core.mesh import BoutMesh

    allkeys = set(tokamak.TokamakEquilibrium.user_options_factory.defaults) | set(tokamak.TokamakEquilibrium.nonorthogonal_options_factory.defaults) | set(
        BoutMesh.user_options_factory.defaults)
    missing = sorted(allkeys - set(y))
    if missing:
        res.violation("embedded-options-incomplete", "embedded YAML lacks the evaluated options %s" % missing[:10], {})
        return
    res.extra["embedded_option_count"] = len(y)
    rc, log = runpy("hypnotoad.scripts.hypnotoad_geqdsk", ["re.geqdsk", "re.yaml"])
    if rc == 0:
        os.rename(os.path.join(wd, "bout.grd.nc"), os.path.join(wd, "grid2.nc"))
    if rc != 0 or not os.path.exists(os.path.join(wd, "grid2.nc")):
        res.violation("cli-second-run", "regeneration from the recreated inputs fails: %s" % log[-300:], {})
        return
    a, _ = gridlab.read_nc(os.path.join(wd, "grid1.nc"))
    b, _ = gridlab.read_nc(os.path.join(wd, "grid2.nc"))
    d = same_arrays({"vars": a}, {"vars": b})
    if d:
        res.violation("cli-roundtrip-differs", "the grid regenerated from the embedded inputs differs in %s" % d[:8], {})
    else:
        res.traces += 1
    shutil.rmtree(wd, ignore_errors=True)


def factory_model(res):
    """the real optionsfactory objects behave as the Lean model says: unknown keys dropped, explicit wins, evaluated set idempotent"""
    from hypnotoad.cases import tokamak
    from hypnotoad.core.mesh import BoutMesh

    for fac, name in ((tokamak.TokamakEquilibrium.user_options_factory, "equilibrium"), (BoutMesh.user_options_factory, "mesh"),
                      (tokamak.TokamakEquilibrium.nonorthogonal_options_factory, "nonorthogonal")):
        s = {"not_an_option_zzz": 1}
        keys = list(fac.defaults)
        k0 = [k for k in keys if isinstance(fac.defaults[k].value, (int, float)) and not isinstance(fac.defaults[k].value, bool)]
        if k0:
            s[k0[0]] = fac.defaults[k0[0]].value
        o1 = fac.create(s)
        res.case(key=("factory", name), nontrivial=True)
        ok = set(o1) == set(keys)
        o2 = fac.create(dict(o1))
        same = all((o1[k] == o2[k]) or (o1[k] != o1[k] and o2[k] != o2[k]) for k in keys)
        if not ok or not same:
            res.broken("optionsfactory semantics differ from the model (keys / idempotence)", {"factory": name, "keys_equal": ok, "idempotent": same})
        else:
            res.traces += 1


def model_correspondence(res, tier):
    """random factories (constants, affine/conditional/halving expressions of other options, chains, occasional cycles) evaluated by
    the real optionsfactory and by the Lean model; random embed(a, b, c) against dict.update"""
    from optionsfactory import OptionsFactory

    rng = vlib.rng("C14-model")
    n = 150 if tier == "quick" else 1200
    lines, expect, metas = [], [], []
    hist = {"ok": 0, "error": 0, "chain3": 0}
    for it in range(n):
        nk = rng.randint(1, 7)
        ks = ["k%d" % i for i in range(nk)]
        entries, defaults, depth = [], {}, {}
        for i, k in enumerate(ks):
            kind = rng.choice("ccrih") if i else "c"
            # mostly acyclic (refer to earlier-or-later keys but in a DAG given by a random permutation rank); sometimes anything
            if kind == "c":
                v = rng.randint(-5, 5)
                entries.append("%s:c:%d" % (k, v))
                defaults[k] = v
                depth[k] = 0
            else:
                k2 = rng.choice(ks) if rng.random() < 0.12 else rng.choice(ks[:i])
                a, b = rng.randint(-3, 3), rng.randint(-3, 3)
                depth[k] = depth.get(k2, 0) + 1
                if kind == "r":
                    entries.append("%s:r:%s:%d:%d" % (k, k2, a, b))
                    defaults[k] = (lambda k2, a, b: lambda o: a * o[k2] + b)(k2, a, b)
                elif kind == "i":
                    entries.append("%s:i:%s:%d:%d" % (k, k2, a, b))
                    defaults[k] = (lambda k2, a, b: lambda o: a if o[k2] != 0 else b)(k2, a, b)
                else:
                    entries.append("%s:h:%s" % (k, k2))
                    defaults[k] = (lambda k2: lambda o: o[k2] // 2)(k2)
        order = list(range(nk))
        rng.shuffle(order)  # factory order is independent of dependency order
        entries = [entries[i] for i in order]
        fac = OptionsFactory(**{ks[i]: defaults[ks[i]] for i in order})
        sett = {k: rng.randint(-5, 5) for k in ks if rng.random() < 0.3}
        try:
            o = fac.create(dict(sett))
            exp = " ".join("%s=%d" % (ks[i], o[ks[i]]) for i in order)
            hist["ok"] += 1
            if max(depth.values()) >= 3:
                hist["chain3"] += 1
        except (RecursionError, ValueError, KeyError, TypeError):
            exp = "error"
            hist["error"] += 1
        extra = {"zz%d" % j: rng.randint(-5, 5) for j in range(rng.randint(0, 2))}
        lines.append("c14c " + " ".join(entries) + " | " + " ".join("%s=%d" % kv for kv in list(sett.items()) + list(extra.items())))
        expect.append(exp)
        metas.append(("create", nk, exp == "error"))
    for it in range(n // 2):
        pool = ["k%d" % i for i in range(6)]
        ds = [{k: rng.randint(-9, 9) for k in rng.sample(pool, rng.randint(0, 5))} for _ in range(3)]
        e = dict(ds[0])
        e.update(ds[1])
        e.update(ds[2])
        lines.append("c14e " + " | ".join(" ".join("%s=%d" % kv for kv in d.items()) for d in ds))
        expect.append(" ".join("%s=%d" % kv for kv in e.items()))
        metas.append(("embed", len(e), False))
    out = vlib.lean_driver(lines)
    for ln, ex, got, m in zip(lines, expect, out, metas):
        res.case(key=m, nontrivial=True)
        if ex != got.strip():
            res.broken("Options model differs from optionsfactory / dict.update", {"line": ln, "implementation": ex, "model": got})
            break
    else:
        res.traces += len(lines)
    res.extra["model_inputs"] = hist


def same_path_reread(res):
    """two different equilibria written one after the other to the *same* file name with the same header line and read in the same
    interpreter: the second read must give the second equilibrium (nothing remembered from the first)"""
    from hypnotoad.geqdsk import _geqdsk
    from hypnotoad.cases import tokamak

    wd = os.path.join(vlib.WORK, "c14_reread")
    os.makedirs(wd, exist_ok=True)
    path = os.path.join(wd, "same_name.geqdsk")
    got = []
    for geo in ("lsn", "usn", "lsn"):
        r1, z1, p2, p1 = example(geo)
        nx, ny = p2.shape
        with warnings.catch_warnings(), contextlib.redirect_stdout(io.StringIO()):
            warnings.simplefilter("ignore")
            eq0 = tokamak.TokamakEquilibrium(r1, z1, p2.copy(), p1.copy(), [], make_regions=False, settings={})
        t = np.linspace(0, 1, nx)
        data = {"nx": nx, "ny": ny, "rdim": r1[-1] - r1[0], "zdim": z1[-1] - z1[0], "rcentr": 1.5, "bcentr": 2.0, "rleft": r1[0], "zmid": 0.5 * (z1[0] + z1[-1]),
                "rmagx": 1.5, "zmagx": 0.0, "simagx": float(eq0.psi_axis), "sibdry": float(eq0.psi_sep[0]), "cpasma": 1.0e6,
                "fpol": 2.5 + 0.3 * t, "pres": 1.0e3 * (1 - t) ** 2 + 10.0, "qpsi": 1.0 + 2.0 * t, "psi": p2}
        with open(path, "w") as fh:
            _geqdsk.write(data, fh, label="SAMEHEAD", shot=1, time=0)
        with warnings.catch_warnings(), contextlib.redirect_stdout(io.StringIO()):
            warnings.simplefilter("ignore")
            with open(path, "rt") as fh:
                eq = tokamak.read_geqdsk(fh, settings={}, make_regions=False)
        if isinstance(eq, tuple):
            res.extra.setdefault("refused", []).append(["same-path reread " + geo, str(eq[1])[:120]])
            return
        got.append((geo, float(eq.x_points[0].Z), float(eq0.x_points[0].Z), eq.geqdsk_input == open(path).read()))
    res.case(key=("same-path-reread",), nontrivial=True, sample={"op": "read_geqdsk of one file name overwritten with lsn, usn, lsn"})
    for geo, z_read, z_true, text_ok in got:
        if abs(z_read - z_true) > 1e-6 or not text_ok:
            res.violation("reread-stale", "reading %r after the file had been overwritten with the %s equilibrium gives an X-point at Z=%.4f (the file's is at %.4f)%s"
                          % (os.path.basename(path), geo, z_read, z_true, "" if text_ok else "; the embedded g-file text is not the file's"), {"sequence": [g[0] for g in got]})
            return
    res.traces += 1


def run(res, tier):
    res.rule = ("caller arrays compared bit-for-bit before/after TokamakEquilibrium construction for 6 option sets x 2 families; one grid "
                "rebuilt in fresh worker processes after 1-2 other builds (same, non-orthogonal double null, circular) in the same interpreter and "
                "compared value for value with the fresh build; geqdsk+yaml -> CLI -> recreate_inputs -> CLI round trip (byte-exact geqdsk, "
                "complete evaluated options, identical arrays); real optionsfactory objects vs the model's laws. distinct by (case)")
    res.trusted += ["PyYAML dump/load round trip, netCDF4 string storage, purity of numpy/scipy", "grid_id and version/provenance strings are excluded from comparisons as the property allows"]
    inputs_unchanged(res)
    factory_model(res)
    model_correspondence(res, tier)
    determinism(res, tier)
    cli_roundtrip(res, tier)
    same_path_reread(res)
    # a file can only be reproduced from its embedded settings if they are the settings the grid was made with
    from props.c12 import inconsistent_options

    inconsistent_options(res, tag="embedded-settings-not-those-used")


def replay(rep):
    print("REPLAY: payload", rep["payload"])
    return 1
