"""C10 — poloidal spacing.  Model GENERATED from get{Sqrt,Monotonic,Linear}PoloidalDistanceFunc on every run
(py/gen/gen_polspacing.py); Float twins validate the translator; the direct oracle runs on the real constructors
and on real grids (ny vs 2*ny nesting, strictly increasing poloidal order)."""
import contextlib
import io
import math
import warnings

import numpy as np

import vlib


def pre(res):
    from gen import gen_polspacing, gen_spacings

    try:
        changed = gen_polspacing.main()
        changed2 = gen_spacings.main()
        res.extra["generated"] = {"files": ["lean/HypnoModel/Gen/PolSpacing.lean", "lean/HypnoModel/Gen/Spacings.lean"],
                                  "changed_since_last_run": bool(changed or changed2)}
    except Exception as e:
        res.extra["generated"] = {"error": "%s: %s" % (type(e).__name__, e)}
        res.gen_error = "%s: %s" % (type(e).__name__, e)


def eq_region():
    from hypnotoad.core.equilibrium import Equilibrium, EquilibriumRegion, Point2D

    class E(Equilibrium):
        def __init__(self):
            self.user_options = Equilibrium.user_options_factory.add(refine_width=1.0e-5, refine_atol=2.0e-8).create({"y_boundary_guards": 1})
            super().__init__({})

    with warnings.catch_warnings(), contextlib.redirect_stdout(io.StringIO()):
        warnings.simplefilter("ignore")
        e = E()
        e.psi = lambda R, Z: R - Z
        pts = [Point2D(i * 0.3, i * 0.3) for i in range(11)]
        return EquilibriumRegion(equilibrium=e, name="", nSegments=1, nx=[1], ny=5, kind="wall.wall", ny_total=5, points=pts,
                                 psival=0.0, Rrange=(-float("inf"), float("inf")), Zrange=(-float("inf"), float("inf")))


def sqrt_path(bl, al, bu, au):
    if bl is None and bu is None:
        return "sqrtNone"
    if bl is None:
        return "sqrtUpperOnly"
    if bu is None:
        return "sqrtLowerOnly"
    a0 = (al or 0.0) == 0.0
    b0 = (au or 0.0) == 0.0
    return {(True, True): "sqrtBoth00", (True, False): "sqrtBoth0b", (False, True): "sqrtBotha0", (False, False): "sqrtBothab"}[(a0, b0)]


def gen_sqrt(r):
    N = float(r.choice([1, 2, 3, 4, 5, 8, 13, 34, r.randint(1, 120)]))
    N_norm = float(r.choice([N, 2 * N, 3 * N + 7, r.randint(int(N), int(6 * N) + 5)]))
    L = 10 ** r.uniform(-2, 0.7)
    mean = L / (N / N_norm)  # ds/diN if uniform
    which = r.choice(["none", "lower", "upper", "both", "both", "both"])

    def b():
        return mean * 10 ** r.uniform(-1.0, 0.6)

    def a():
        c = r.random()
        if c < 0.35:
            return None if r.random() < 0.5 else 0.0
        return mean * math.sqrt(N / N_norm) * 10 ** r.uniform(-2.0, 0.0)

    bl = b() if which in ("lower", "both") else None
    bu = b() if which in ("upper", "both") else None
    al = a() if bl is not None else None
    au = a() if bu is not None else None
    return L, N, N_norm, bl, al, bu, au


def gen_mono(r):
    N = float(r.choice([1, 2, 3, 5, 8, 21, r.randint(1, 120)]))
    N_norm = float(r.choice([N, 2 * N, r.randint(int(N), int(6 * N) + 5)]))
    L = 10 ** r.uniform(-2, 0.7)
    mean = L / (N / N_norm)
    c = r.random()
    if c < 0.2:
        # next to the switch between the convex and concave forms
        dl = mean * 10 ** r.uniform(-0.7, 0.25)
        du = 2 * mean * (1 + r.choice([-1, 1]) * 10 ** r.uniform(-12, -3)) - dl
        if du <= 0:
            du = mean
    else:
        dl = mean * 10 ** r.uniform(-1.0, 0.8)
        du = mean * 10 ** r.uniform(-1.0, 0.8)
    return L, N, N_norm, dl, du


def closure_vars(f):
    try:
        return dict(zip(f.__code__.co_freevars, [c.cell_contents for c in f.__closure__]))
    except Exception:
        return {}


def check_sfunc(res, f, L, N, N_norm, path, params, dgrad=None, refusals=None):
    """direct oracle on one constructed spacing function; returns False if a violation was recorded"""
    ok = True
    if path == "monoConcave" and 0.5 * (params["d_lower"] + params["d_upper"]) * N / N_norm / L - 1.0 < 1.0e-4:
        # one finding: the concave form is ill-conditioned just below the convex/concave switch (its parameter l1 -> infinity)
        class R2:
            def violation(self, wid, what, payload):
                res.violation("monoConcave-near-branch-switch", what, payload)

        return check_sfunc(R2(), f, L, N, N_norm, "monoConcave.", params, dgrad, refusals)
    ev = lambda x: float(np.asarray(f(np.float64(x))))  # noqa
    s0, sN = ev(0.0), ev(N)
    tol = 1e-12 * L if not path.startswith("monoConcave") else 1e-8 * L
    if abs(s0) > tol:
        res.violation("end0:" + path, "s(0) = %r, should be 0 (path %s)" % (s0, path), params)
        ok = False
    if abs(sN - L) > tol:
        res.violation("endN:" + path, "s(N) = %r, contour length %r (path %s)" % (sN, L, path), params)
        ok = False
    n = int(N)
    vals = np.array([ev(float(i)) for i in range(n + 1)])
    d = np.diff(vals)
    if not (d > 0).all():
        # the property allows a refusal: EquilibriumRegion._checkMonotonic / the distance guard must then reject it
        refusals["nonmonotone:" + path] = refusals.get("nonmonotone:" + path, 0) + 1
        return "nonmono"
    if dgrad is not None:
        h = 1e-5 * N
        gl, gu = dgrad
        if gl is not None:
            g0 = (ev(h) - ev(0.0)) / h * N_norm
            if abs(g0 - gl) > 2e-3 * max(abs(gl), L * N_norm / N):
                res.violation("grad0:" + path, "ds/diN(0) = %r, requested %r" % (g0, gl), params)
                ok = False
        if gu is not None:
            g1 = (ev(N) - ev(N - h)) / h * N_norm
            if abs(g1 - gu) > 2e-3 * max(abs(gu), L * N_norm / N):
                res.violation("gradN:" + path, "ds/diN(N) = %r, requested %r" % (g1, gu), params)
                ok = False
    return ok


def check_functions(res, r, ncases):
    er = eq_region()
    lines, pend = [], []
    hits, refusals = {}, {}
    h = vlib.f2hex
    for k in range(ncases):
        fam = "sqrt" if k % 2 == 0 else "mono"
        with warnings.catch_warnings(), np.errstate(all="ignore"), contextlib.redirect_stdout(io.StringIO()):
            warnings.simplefilter("ignore")
            if fam == "sqrt":
                L, N, N_norm, bl, al, bu, au = gen_sqrt(r)
                params = {"family": "sqrt", "length": L, "N": N, "N_norm": N_norm, "b_lower": bl, "a_lower": al, "b_upper": bu, "a_upper": au}
                path = sqrt_path(bl, al, bu, au)
                try:
                    f = er.getSqrtPoloidalDistanceFunc(L, N, N_norm, b_lower=bl, a_lower=al, b_upper=bu, a_upper=au)
                except ValueError as ex:
                    refusals["ctor:" + path] = refusals.get("ctor:" + path, 0) + 1
                    res.case(key=("refused", path, str(ex)[:30]), nontrivial=False)
                    continue
                dgrad = None  # the sqrt families have singular end gradients; their regular part is checked by the theorems
                p = [bl, al if al is not None else (0.0 if bl is not None else None), bu, au if au is not None else (0.0 if bu is not None else None)]
                root = None

                def mk(L2, N2, NN2):
                    return er.getSqrtPoloidalDistanceFunc(L2, N2, NN2, b_lower=bl, a_lower=al, b_upper=bu, a_upper=au)
            else:
                L, N, N_norm, dl, du = gen_mono(r)
                params = {"family": "mono", "length": L, "N": N, "N_norm": N_norm, "d_lower": dl, "d_upper": du}
                path = "monoConcave" if L < 0.5 * (du + dl) * N / N_norm - 1.0e-8 * L else "monoConvex"
                try:
                    f = er.getMonotonicPoloidalDistanceFunc(L, N, N_norm, d_lower=dl, d_upper=du)
                except ValueError as ex:
                    refusals["ctor:" + path] = refusals.get("ctor:" + path, 0) + 1
                    res.case(key=("refused", path, str(ex)[:30]), nontrivial=False)
                    continue
                dgrad = (dl, du)
                p = [dl, du, None, None]
                root = None
                if path == "monoConcave":
                    # l1 is rebound after brentq; the innermost lambda closes over l1, l2, l3, r2, r3
                    root = find_l1(f)

                def mk(L2, N2, NN2):
                    return er.getMonotonicPoloidalDistanceFunc(L2, N2, NN2, d_lower=dl, d_upper=du)
            hits[path] = hits.get(path, 0) + 1
            res.case(key=(path, N, N_norm, round(math.log10(L), 1), tuple(None if x is None else round(x, 4) for x in p)),
                     nontrivial=(path not in ("sqrtNone",)), sample=dict(params, path=path) if len(res.samples) < 6 else None)
            st = check_sfunc(res, f, L, N, N_norm, path, params, dgrad, refusals)
            if st == "nonmono":
                # must be refused downstream: the real _checkMonotonic over the indices 0..N of a region with 2*ny = N
                if int(N) % 2 == 0:
                    from props.c20 import fake_matplotlib

                    fake_matplotlib()
                    er.ny_noguards = int(N) // 2
                    er.extend_lower = er.extend_upper = 0
                    try:
                        er._checkMonotonic([(f, "check")], total_distance=L)
                        vals = [float(np.asarray(f(np.float64(float(i))))) for i in range(int(N) + 1)]
                        if any(b < a for a, b in zip(vals, vals[1:])):
                            res.violation("nonmonotone-accepted:" + path,
                                          "spacing function decreases between integer indices and _checkMonotonic accepts it", params)
                    except ValueError:
                        pass
                continue
            # homogeneity: doubling N and N_norm keeps every original face
            try:
                f2 = mk(L, 2 * N, 2 * N_norm)
                worst = max(abs(float(np.asarray(f2(np.float64(2.0 * i)))) - float(np.asarray(f(np.float64(float(i)))))) for i in range(int(N) + 1))
                if worst > (1e-11 if path != "monoConcave" else 1e-8) * L:
                    res.violation("nesting:" + path, "doubling N and N_norm moves an original face by %.3g (L=%.3g)" % (worst, L), params)
            except ValueError:
                refusals["nesting:" + path] = refusals.get("nesting:" + path, 0) + 1
            # translator validation
            if path == "monoConcave" and root is None:
                continue
            xs = [0.0, N] + [r.uniform(0, N) for _ in range(4)] + [-0.5, N + 0.5]
            want = [float(np.asarray(f(np.float64(x)))) for x in xs]
            lines.append("c10 %s %s %s %s %s %s %s" % (path, h(L), h(N), h(N_norm), " ".join("-" if x is None else h(x) for x in p),
                                                  "-" if root is None else h(root), " ".join(h(x) for x in xs)))
            pend.append((path, params, xs, want))
    res.extra["path_hits"] = hits
    res.extra["explicit_refusals"] = refusals
    if res.gen_error:
        res.broken("translator could not regenerate the model (fail-closed)", res.gen_error)
        return
    try:
        mo = vlib.lean_driver(lines) if lines else []
    except Exception as ex:
        res.broken("generated model does not build / run", str(ex)[-800:])
        return
    for (path, params, xs, want), m in zip(pend, mo):
        if m == "bad-op":
            res.broken("driver has no twin for path", path)
            continue
        got = [vlib.hex2f(t) for t in m.split()]
        L = params["length"]
        tol = (1e-11 if path != "monoConcave" else 1e-9) * max(L, 1e-3)
        if any((abs(a - b) > tol + 1e-11 * abs(b)) for a, b in zip(got, want) if np.isfinite(b)):
            res.broken("Float twin of the generated definition differs from the Python (translator or source changed)",
                       {"path": path, "params": params, "python": want, "lean": got[: len(want)]})
        else:
            res.traces += 1


def find_l1(f):
    """recover the brentq root l1 from the closure chain of the returned piecewise lambda"""
    seen = set()
    stack = [f]
    while stack:
        g = stack.pop()
        if id(g) in seen or not hasattr(g, "__closure__") or g.__closure__ is None:
            continue
        seen.add(id(g))
        cv = closure_vars(g)
        if "l1" in cv and isinstance(cv["l1"], float):
            return cv["l1"]
        stack += [v for v in cv.values() if callable(v)]
        # the piecewise lambda holds its branch lambdas as constants of its code object
    # fall back: evaluate the constraint-free identity  s(i) ~ l1*log(...)  is not invertible; give up
    return None


def check_grids(res, tier):
    """doubling all ny leaves every original y-face a face of the finer grid; poloidal distance strictly increasing"""
    import gridlab

    base = dict(y_boundary_guards=0)
    pairs = [("lsn", {}, {"ny_inner_divertor": 3, "ny_outer_divertor": 4, "ny_sol": 8})]
    if tier == "thorough":
        pairs += [("cdn", {}, {"ny_inner_divertor": 3, "ny_outer_divertor": 4, "ny_inner_sol": 4, "ny_outer_sol": 4}),
                  ("lsn", {"poloidal_spacing_method": "monotonic"}, {"ny_inner_divertor": 3, "ny_outer_divertor": 4, "ny_sol": 8}),
                  ("lsn", {"target_all_poloidal_spacing_length": 0.1}, {"ny_inner_divertor": 4, "ny_outer_divertor": 4, "ny_sol": 8})]
    specs = []
    for geo, extra, nys in pairs:
        o1 = dict(base, **extra, **nys)
        o2 = dict(base, **extra, **{k: 2 * v for k, v in nys.items()})
        specs += [gridlab.tokamak_spec(geo, options=o1, extract=["meshmeta", "regions"]), gridlab.tokamak_spec(geo, options=o2, extract=["meshmeta", "regions"])]
    out = gridlab.get(specs)
    for k, (geo, extra, nys) in enumerate(pairs):
        a, b = out[2 * k], out[2 * k + 1]
        res.case(key=("gridpair", geo, str(extra)), nontrivial=True, sample={"op": "ny vs 2ny", "geometry": geo, "extra": extra})
        spec = {"specs": [a["spec"], b["spec"]]}
        if a["error"] or b["error"]:
            res.extra.setdefault("grid_refused", []).append([geo, str(a["error"])[:100], str(b["error"])[:100]])
            continue
        worst = 0.0
        for rid, (sx, sy) in a["extras"]["meshmeta"]["region_indices"].items():
            sx2, sy2 = b["extras"]["meshmeta"]["region_indices"][rid]
            for loc in ("Rxy_ylow", "Zxy_ylow"):
                c = a["vars"][loc][sx.start:sx.stop, sy.start:sy.stop]
                f = b["vars"][loc][2 * sx.start:2 * sx.stop:2, sy2.start:sy2.stop:2] if False else b["vars"][loc][sx2.start:sx2.stop, sy2.start:sy2.stop:2]
                # radial sizes are equal (only ny doubled)
                m = min(c.shape[1], f.shape[1])
                worst = max(worst, float(np.nanmax(np.abs(c[:, :m] - f[:, :m]))))
        res.extra.setdefault("ny_doubling_max_face_shift_m", {})[geo + str(extra)] = worst
        if worst > 1e-6:
            res.violation("grid-nesting:" + geo, "doubling all ny moves an original y-face by %.3g m" % worst, spec)
        else:
            res.traces += 1
        # strictly increasing poloidal order inside every region, on both grids
        for g in (a, b):
            pd = g["vars"].get("poloidal_distance")
            if pd is None:
                continue
            for rid, (sx, sy) in g["extras"]["meshmeta"]["region_indices"].items():
                blk = pd[sx.start:sx.stop, sy.start:sy.stop]
                if blk.shape[1] > 1 and not (np.diff(blk, axis=1) > 0).all():
                    res.violation("grid-order:" + geo, "poloidal_distance not strictly increasing in y inside region %s" % rid, {"spec": g["spec"]})


def check_order_nonorth(res, tier):
    """non-orthogonal grids: along every flux surface of every region the written points are in strictly increasing poloidal order (the
    poloidal distance of each point is measured on the contour itself), for the contours that are not the region's own separatrix too"""
    import gridlab

    W2 = [(1.2, -0.5), (1.2, 0.5), (1.8, 0.5), (1.8, -0.5)]
    specs = [gridlab.tokamak_spec("lsn", options={"orthogonal": False, "ny_inner_divertor": 6, "ny_outer_divertor": 8, "ny_sol": 16}, wall=W2, extract=["meshmeta"], timeout=900)]
    if tier == "thorough":
        specs.append(gridlab.tokamak_spec("cdn", options={"orthogonal": False, "ny_inner_divertor": 6, "ny_outer_divertor": 8, "ny_inner_sol": 8, "ny_outer_sol": 8},
                                          extract=["meshmeta"], timeout=1500))
    for g in gridlab.get(specs):
        name = g["spec"]["geometry"] + "-nonorth-fine-ny"
        res.case(key=("order", name), nontrivial=True, sample={"op": "poloidal order on a non-orthogonal grid", "grid": name})
        if g["error"]:
            res.extra.setdefault("grid_refused", []).append([name, str(g["error"][:2])[:160]])
            continue
        v = g["vars"]
        bad = None
        for key in ("poloidal_distance", "poloidal_distance_ylow"):
            pd = v.get(key)
            if pd is None:
                continue
            for rid, (sx, sy) in g["extras"]["meshmeta"]["region_indices"].items():
                blk = pd[sx.start:sx.stop, sy.start:sy.stop]
                d = np.diff(blk, axis=1)
                if blk.shape[1] > 1 and not (d > 0).all():
                    i, j = np.argwhere(~(d > 0))[0]
                    bad = bad or (key, rid, int(sx.start + i), int(sy.start + j), float(d[i, j]))
        if bad:
            res.violation("grid-order:nonorth", "%s: %s decreases by %.3g from y=%d to y=%d at x=%d (region %s): the points of that flux surface are not in "
                          "increasing poloidal order" % (name, bad[0], -bad[4], bad[3], bad[3] + 1, bad[2], bad[1]), {"spec": g["spec"]})
        else:
            res.traces += 1


def check_shared_separatrix(res, tier):
    """orthogonal grids with boundary guard cells: the private-flux part and the SOL part of a divertor leg are gridded separately from the same
    separatrix contour with the same spacing function, so their points on the separatrix coincide (x-neighbouring cells share their corners)"""
    import gridlab
    from props.c08 import y_adjacent_corner_mismatch  # noqa: F401

    specs = [gridlab.tokamak_spec("lsn", options={"y_boundary_guards": 2}), gridlab.tokamak_spec("cdn", options={"y_boundary_guards": 1})]
    for g in gridlab.get(specs):
        name = "%s guards=%d" % (g["spec"]["geometry"], g["spec"]["options"]["y_boundary_guards"])
        res.case(key=("shared-separatrix", name), nontrivial=True, sample={"op": "separatrix points of the PF and SOL parts of a leg", "grid": name})
        if g["error"]:
            res.extra.setdefault("grid_refused", []).append([name, str(g["error"][:2])[:160]])
            continue
        v = g["vars"]
        worst, where = 0.0, None
        for (a_, b_) in (("_lower_right_corners", "_corners"), ("_upper_right_corners", "_upper_left_corners")):
            d = np.hypot(v["Rxy" + a_][:-1, :] - v["Rxy" + b_][1:, :], v["Zxy" + a_][:-1, :] - v["Zxy" + b_][1:, :])
            if d.size and float(np.nanmax(d)) > worst:
                worst = float(np.nanmax(d))
                where = tuple(int(q) for q in np.unravel_index(np.nanargmax(d), d.shape))
        res.extra.setdefault("shared_separatrix_mismatch_m", {})[name] = worst
        if worst > 1e-6:
            res.violation("separatrix-points-differ", "%s: cells (%d, %d) and (%d, %d) are x-neighbours but their shared corner differs by %.3g m: the two radial parts "
                          "of the region placed different points on the contour they share" % (name, where[0], where[1], where[0] + 1, where[1], worst), {"spec": g["spec"]})
        else:
            res.traces += 1


def check_combined(res, tier):
    """the combined spacing function of every flux surface of a real non-orthogonal mesh (EquilibriumRegion.combineSfuncs applied to the
    contour and its orthogonal spacing function, as MeshRegion.distributePointsNonorthogonal does): index 0 -> distance 0 and the last index
    -> the length of *that* contour between its end points"""
    import gridlab
    from hypnotoad.core.mesh import Mesh

    W2 = [(1.2, -0.5), (1.2, 0.5), (1.8, 0.5), (1.8, -0.5)]
    cases = [("lsn", W2)] + ([("cdn", None)] if tier == "thorough" else [])
    for geo, wall in cases:
        spec = gridlab.tokamak_spec(geo, options={"orthogonal": False}, **({"wall": wall} if wall else {}))
        try:
            with warnings.catch_warnings(), contextlib.redirect_stdout(io.StringIO()):
                warnings.simplefilter("ignore")
                eq = gridlab.make_equilibrium(spec)
                mesh = Mesh(eq, dict(spec["options"]))
        except Exception as e:  # explicit refusal
            res.case(key=("combined-refused", geo, type(e).__name__), nontrivial=False)
            res.extra.setdefault("grid_refused", []).append([geo + " mesh", "%s: %s" % (type(e).__name__, str(e)[:120])])
            continue
        worst = 0.0
        for mr in mesh.regions.values():
            er = mr.equilibriumRegion
            N = 2.0 * er.ny_noguards
            for ic, c in enumerate(mr.contours):
                with warnings.catch_warnings(), contextlib.redirect_stdout(io.StringIO()):
                    warnings.simplefilter("ignore")
                    fc = c.get_fine_contour(psi=eq.psi)
                    d = np.array([fc.getDistance(p) for p in c])
                    try:
                        sf = er.combineSfuncs(c, mr.sfunc_orthogonal_list[ic])
                    except Exception:
                        continue
                length = float(d[c.endInd] - d[c.startInd])
                s0, sN = float(sf(0.0)), float(sf(N))
                res.case(key=("combined", geo, er.name, mr.radialIndex, ic), nontrivial=True)
                worst = max(worst, abs(sN - length))
                if abs(s0) > 1e-8 or abs(sN - length) > 1e-5:
                    res.violation("combined-end-values", "%s region %s(%d), contour %d of %d (%s): the combined spacing function has s(0) = %.3g and s(2 ny) = %.6f, the "
                                  "contour's own length is %.6f" % (geo, er.name, mr.radialIndex, ic, len(mr.contours), er.kind, s0, sN, length),
                                  {"geometry": geo, "region": er.name, "contour": ic})
                    break
        res.extra.setdefault("combined_end_error_m", {})[geo] = worst
        res.traces += 1
        import multiprocessing

        for ch in multiprocessing.active_children():
            ch.terminate()


def check_regions(res, tier):
    """the spacing functions of real EquilibriumRegions: each end gets the spacing length its *own* kind of end asks for (a target length at
    a wall end, the X-point length at an X-point end, each with the option that belongs to that leg), for the 'monotonic' family (gradient
    per unit of normalised index) and the 'sqrt' family (gradient at a wall end, sqrt coefficient at an X-point end)"""
    import gridlab

    XN, TN, TN_IL = 0.5, 1.5, 0.9      # non-orthogonal: X-point length, target length (all), inner-lower target length
    XO, TO, TO_OL = 0.07, 0.2, 0.11    # orthogonal sqrt family: X-point length, target length (all), outer-lower target length
    cases = [("lsn", {"orthogonal": False, "nonorthogonal_xpoint_poloidal_spacing_length": XN, "nonorthogonal_target_all_poloidal_spacing_length": TN}),
             ("cdn", {"orthogonal": False, "nonorthogonal_xpoint_poloidal_spacing_length": XN, "nonorthogonal_target_all_poloidal_spacing_length": TN,
                      "nonorthogonal_target_inner_lower_poloidal_spacing_length": TN_IL}),
             ("lsn", {"xpoint_poloidal_spacing_length": XO, "target_all_poloidal_spacing_length": TO, "target_outer_lower_poloidal_spacing_length": TO_OL}),
             # a normalisation that is not a whole number (N_norm = 0.5 * 15, 1.3 * 15): the gradients are per unit of i / N_norm as documented
             ("lsn", {"orthogonal": False, "N_norm_prefactor": 0.5, "nonorthogonal_xpoint_poloidal_spacing_length": XN,
                      "nonorthogonal_target_all_poloidal_spacing_length": TN}),
             ("lsn", {"N_norm_prefactor": 1.3, "xpoint_poloidal_spacing_length": XO, "target_all_poloidal_spacing_length": TO})]
    if tier == "thorough":
        cases += [("udn", dict(cases[0][1])), ("usn", dict(cases[2][1])), ("ldn", dict(cases[1][1]))]
    for geo, extra in cases:
        spec = gridlab.tokamak_spec(geo, options=extra)
        try:
            with warnings.catch_warnings(), contextlib.redirect_stdout(io.StringIO()):
                warnings.simplefilter("ignore")
                eq = gridlab.make_equilibrium(spec)
        except Exception as e:  # explicit refusal
            res.case(key=("regions-refused", geo, type(e).__name__), nontrivial=False)
            continue
        orth = extra.get("orthogonal", True)
        for name, region in eq.regions.items():
            lk, uk = region.kind.split(".")

            def want(kind, which):
                if kind == "X":
                    return XO if orth else XN
                leg = name.replace("_divertor", "")
                key = ("target_%s_poloidal_spacing_length" if orth else "nonorthogonal_target_%s_poloidal_spacing_length") % leg
                return extra.get(key, TO if orth else TN)

            N = 2 * region.ny_noguards
            N_norm = region.user_options.N_norm_prefactor * region.ny_total
            with warnings.catch_warnings(), contextlib.redirect_stdout(io.StringIO()):
                warnings.simplefilter("ignore")
                L = region.totalDistance(psi=eq.psi)
                try:
                    sf = region.getSfuncFixedSpacing(N + 1, L, method="sqrt" if orth else "monotonic")
                except ValueError:
                    res.case(key=("region-sfunc-refused", geo, name), nontrivial=False)
                    continue
            res.case(key=("region-sfunc", geo, name, orth), nontrivial=True, sample={"op": "spacing function of a real region", "geometry": geo, "region": name,
                                                                                     "kind": region.kind})
            ev = lambda x: float(np.asarray(sf(np.array([float(x)]))).ravel()[0])  # noqa: E731
            d = 1e-6
            payload = {"geometry": geo, "options": extra, "region": name}
            for end, kind, x0, sgn in (("lower", lk, 0.0, 1.0), ("upper", uk, float(N), -1.0)):
                w = want(kind, end)
                base = ev(x0)
                if kind == "wall" or not orth:
                    g = sgn * (ev(x0 + sgn * d) - base) / d * N_norm
                    if abs(g - w) > 1e-3 * w:
                        res.violation("region-end-gradient:%s" % ("sqrt" if orth else "monotonic"), "%s region %s (%s): the %s end is a%s end and asks for the spacing "
                                      "length %.6g, the spacing function has ds/d(i/N_norm) = %.6g there" % (geo, name, region.kind, end, "n X-point" if kind == "X" else " wall",
                                                                                                            w, g), payload)
                else:
                    # sqrt family at an X-point: ds/diN ~ a / sqrt(iN), i.e. s ~ 2 a sqrt(i/N_norm) to leading order
                    dd = 1e-8
                    a = sgn * (ev(x0 + sgn * dd) - base) / (2.0 * np.sqrt(dd / N_norm))
                    if abs(a - w) > 2e-3 * w:
                        res.violation("region-end-sqrt-coefficient", "%s region %s (%s): the %s end is an X-point end with xpoint_poloidal_spacing_length = %.6g, the spacing "
                                      "function behaves like 2 * %.6g sqrt(i/N_norm) there" % (geo, name, region.kind, end, w, a), payload)
            if abs(ev(0.0)) > 1e-12 or abs(ev(float(N)) - L) > 1e-9 * L:
                res.violation("region-end-values", "%s region %s: s(0) = %r, s(N) - L = %r" % (geo, name, ev(0.0), ev(float(N)) - L), payload)
        res.traces += 1


def run(res, tier):
    r = vlib.rng("c10")
    res.rule = ("random (L, N in 1..120, N_norm in N..6N, end-spacing parameters spanning 0.1..6 of the uniform spacing, sqrt coefficients "
                "None/0/positive; monotonic family with a fifth of the cases within 1e-12..1e-3 of the convex/concave switch) -> real "
                "getSqrtPoloidalDistanceFunc / getMonotonicPoloidalDistanceFunc: s(0)=0, s(N)=L, strictly increasing on the integer "
                "indices or refused by _checkMonotonic, end gradients (monotonic family), homogeneity under doubling N and N_norm; "
                "Float twins of the GENERATED definitions on the same inputs incl. the extrapolation ranges; real grids at ny and 2ny. "
                "non-trivial = any path but sqrtNone; distinct by (path, N, N_norm, magnitudes, parameters)")
    res.trusted += ["scipy.optimize.brentq root l1 of the concave monotonic form is a parameter of the model",
                    "py2lean translation (incl. numpy.piecewise -> nested if-then-else, last condition wins) validated by the Float twins every run"]
    check_functions(res, r, 1600 if tier == "quick" else 60000)
    check_grids(res, tier)
    check_regions(res, tier)
    check_order_nonorth(res, tier)
    check_combined(res, tier)
    check_shared_separatrix(res, tier)


def replay(rep):
    p = rep["payload"]
    if "family" not in p:
        print("REPLAY: grid-level: rebuild the specs in the payload with py/gridlab.py")
        return 1
    er = eq_region()
    r = vlib.Result("C10", "quick")
    with warnings.catch_warnings(), np.errstate(all="ignore"), contextlib.redirect_stdout(io.StringIO()):
        warnings.simplefilter("ignore")
        if p["family"] == "sqrt":
            f = er.getSqrtPoloidalDistanceFunc(p["length"], p["N"], p["N_norm"], b_lower=p["b_lower"], a_lower=p["a_lower"],
                                               b_upper=p["b_upper"], a_upper=p["a_upper"])
            path = sqrt_path(p["b_lower"], p["a_lower"], p["b_upper"], p["a_upper"])
            dgrad = None
        else:
            f = er.getMonotonicPoloidalDistanceFunc(p["length"], p["N"], p["N_norm"], d_lower=p["d_lower"], d_upper=p["d_upper"])
            path = "mono"
            dgrad = (p["d_lower"], p["d_upper"])
        check_sfunc(r, f, p["length"], p["N"], p["N_norm"], path, p, dgrad, {})
    for wid, what, _ in r.violations:
        print("REPLAY:", wid, what)
    return 1 if r.violations else 0
