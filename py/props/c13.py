"""C13 — parallel == serial. Correspondence of lean/HypnoModel/Model/ParMap.lean with
hypnotoad.utils.parallel_map.ParallelMap, with forced completion orders, failing tasks and a watchdog."""
import itertools
import json
import os
import select
import signal
import subprocess
import sys
import time

import numpy as np

import vlib

UNIT = 0.03
HANG_S = 12.0


def pre(res):
    """regenerate Gen/ParMapQ.lean (queue constructors and the put-all-then-get-all structure of __call__) from the source; fail closed"""
    from gen import gen_parmap

    try:
        changed = gen_parmap.main()
        res.extra["generated"] = {"file": "lean/HypnoModel/Gen/ParMapQ.lean", "changed_since_last_run": bool(changed)}
    except Exception as e:
        res.extra["generated"] = {"error": "%s: %s" % (type(e).__name__, e)}
        res.gen_error = "%s: %s" % (type(e).__name__, e)


def serial_outcome(s):
    out = []
    for t in s["tasks"]:
        if t["fail"]:
            ty = {"ctor2": "TwoArgError", "local": "LocalError"}.get(t["fail"], "TaskError")
            return {"kind": "exc", "type": ty, "msg": "task %d failed" % t["value"]}
        out.append(t["value"] * s.get("scale", 1))
    return {"kind": "ok", "value": out}


def scenarios(r, tier):
    sc = []
    nmax = 4 if tier == "quick" else 5
    # every completion order for n tasks on >= n workers (delays force the order)
    for n in range(1, nmax + 1):
        perms = list(itertools.permutations(range(n)))
        if tier == "quick" and len(perms) > 12:
            perms = r.sample(perms, 12)
        for p in perms:
            sc.append({"np": 5, "tasks": [{"delay": UNIT * p[i], "value": 10 + i, "fail": False} for i in range(n)],
                       "why": "order %s" % (p,)})
    # fewer workers than tasks, random delays
    for np_ in ([2, 3] if tier == "quick" else [2, 3, 5]):
        for _ in range(6 if tier == "quick" else 30):
            n = r.randint(1, 6 if tier == "quick" else 9)
            sc.append({"np": np_, "scale": r.choice([1, 3]),
                       "tasks": [{"delay": UNIT * r.randint(0, 3), "value": 100 + i, "fail": False} for i in range(n)],
                       "why": "np<n random delays"})
    # empty task list, single task
    sc.append({"np": 2, "tasks": [], "why": "no tasks"})
    # a failing task at every position, every worker count; then a healthy call on the same workers
    for np_ in [2, 3, 5]:
        for n in ([1, 3] if tier == "quick" else [1, 2, 3, 4, 5]):
            for pos in range(n):
                for first_done in ([True, False] if n > 1 else [True]):
                    tasks = [{"delay": UNIT * r.randint(0, 2), "value": 200 + i, "fail": False} for i in range(n)]
                    tasks[pos]["fail"] = True
                    tasks[pos]["delay"] = 0.0 if first_done else UNIT * 3
                    sc.append({"np": np_, "tasks": tasks, "why": "task %d of %d fails" % (pos, n), "fails": True})
        sc.append({"np": np_, "tasks": [{"delay": 0.0, "value": 300 + i, "fail": False} for i in range(4)],
                   "why": "healthy call after failures on the same workers", "after_failure": True})
    # exceptions that do not survive the trip between processes: pickle but cannot be un-pickled / cannot be pickled at all;
    # then a healthy call on the same workers (nothing stale may be left in the queues)
    for np_ in [2, 3]:
        for kind in ("ctor2", "local"):
            for pos in (0, 2):
                tasks = [{"delay": UNIT * r.randint(0, 2), "value": 600 + i, "fail": False} for i in range(3)]
                tasks[pos]["fail"] = kind
                sc.append({"np": np_, "tasks": tasks, "why": "task %d raises a %s exception" % (pos, kind), "fails": True})
            sc.append({"np": np_, "tasks": [{"delay": 0.0, "value": 700 + i, "fail": False} for i in range(4)],
                       "why": "healthy call after a %s failure on the same workers" % kind, "after_failure": True})
    # two failing tasks: the serial outcome is the lower index, whichever finishes first
    for np_ in [3]:
        for (a, b) in [(0, 2), (1, 3)]:
            for slow_first in [True, False]:
                tasks = [{"delay": UNIT, "value": 400 + i, "fail": False} for i in range(4)]
                tasks[a]["fail"] = tasks[b]["fail"] = True
                tasks[a]["delay"] = UNIT * 3 if slow_first else 0.0
                tasks[b]["delay"] = 0.0 if slow_first else UNIT * 3
                sc.append({"np": np_, "tasks": tasks, "why": "two failures %d,%d" % (a, b), "fails": True})
    # serial path
    sc.append({"np": 1, "tasks": [{"delay": 0.0, "value": 500 + i, "fail": False} for i in range(3)], "why": "np=1"})
    sc.append({"np": 1, "tasks": [{"delay": 0.0, "value": 500 + i, "fail": i == 1} for i in range(3)], "why": "np=1 failing", "fails": True})
    return sc


def run_child(sc, res):
    """runs the scenarios in a child process group; a scenario without progress for HANG_S seconds is a hang."""
    results = {}
    start = 0
    hangs = 0
    path = os.path.join(vlib.WORK, "c13_scen.json")
    while start < len(sc):
        todo = [dict(s, skip=(k < start)) for k, s in enumerate(sc)]
        with open(path, "w") as fh:
            json.dump(todo, fh)
        env = dict(os.environ)
        env["VERIF_REPO"] = vlib.REPO
        p = subprocess.Popen([sys.executable, os.path.join(os.path.dirname(__file__), "c13_child.py"), path],
                             stdout=subprocess.PIPE, stderr=subprocess.DEVNULL, env=env, start_new_session=True, text=True)
        current = None
        last = time.time()
        ended = False
        # a reader thread feeds a queue: select() on the pipe is unreliable once Python's buffered reader has swallowed several lines
        import queue
        import threading

        q = queue.Queue()

        def pump(stream=p.stdout):
            for ln in stream:
                q.put(ln)
            q.put(None)

        threading.Thread(target=pump, daemon=True).start()
        while True:
            try:
                line = q.get(timeout=1.0)
            except queue.Empty:
                if time.time() - last > HANG_S:
                    break
                continue
            if line is None:
                break
            last = time.time()
            if line.startswith("START"):
                current = int(line.split()[1])
            elif line.startswith("DONE"):
                _, k, js = line.split(" ", 2)
                results[int(k)] = json.loads(js)
                current = None
            elif line.startswith("END"):
                ended = True
                break
        try:
            os.killpg(p.pid, signal.SIGKILL)
        except ProcessLookupError:
            pass
        p.wait()
        if ended:
            break
        if current is not None:
            results[current] = {"kind": "hang"}
            hangs += 1
            start = current + 1
            if hangs >= 3:
                # enough evidence; do not spend a timeout on every remaining failing scenario
                for k in range(start, len(sc)):
                    if sc[k].get("fails") and sc[k]["np"] > 1:
                        results[k] = {"kind": "skipped-after-hangs"}
                sc2 = [k for k in range(start, len(sc)) if k not in results]
                if not sc2:
                    break
                # continue with the remaining non-failing scenarios
                for k in range(start, len(sc)):
                    if k in results:
                        sc[k] = dict(sc[k], skip=True)
        else:
            # child died without a current scenario
            results.setdefault(start, {"kind": "child-died"})
            start += 1
    return results


def grid_equal(res, tier):
    """grids generated with number_of_processors=2 equal the serial ones value for value"""
    import gridlab

    pairs = [("circular", lambda np_: gridlab.circular_spec(options={"number_of_processors": np_})),
             # many long contours: the pickled tasks and results of one map are far larger than an OS pipe buffer (a blocked generation shows as
             # a time-out of the parallel build only)
             ("circular-16x32", lambda np_: gridlab.circular_spec(options={"number_of_processors": np_, "nx": 16, "ny": 32}, timeout=240)),
             # non-orthogonal without boundary guard cells: many contours stop short of the wall and are extended inside the mapped task
             # (_find_intersection), i.e. the task changes its argument and the change has to come back from the worker
             ("lsn-nonorth-guards0", lambda np_: gridlab.tokamak_spec("lsn", options={"number_of_processors": np_, "orthogonal": False, "y_boundary_guards": 0},
                                                                     wall=[(1.2, -0.5), (1.2, 0.5), (1.8, 0.5), (1.8, -0.5)], timeout=300))]
    if tier == "thorough":
        pairs.append(("lsn", lambda np_: gridlab.tokamak_spec("lsn", options={"number_of_processors": np_})))
        pairs.append(("cdn-nonorth", lambda np_: gridlab.tokamak_spec("cdn", options={"number_of_processors": np_, "orthogonal": False})))
    specs = []
    for name, mk in pairs:
        specs += [mk(1), mk(2 if tier == "quick" else 3)]
    out = gridlab.get(specs)
    for k, (name, mk) in enumerate(pairs):
        a, b = out[2 * k], out[2 * k + 1]
        res.case(key=("grid", name), nontrivial=True, sample={"op": "grid np=1 vs np>1", "case": name})
        if a["error"] or b["error"]:
            if bool(a["error"]) != bool(b["error"]) or (a["error"] and a["error"][0] != b["error"][0]):
                res.violation("grid-np-outcome:" + name, "serial and parallel generation end differently: %r vs %r" % (a["error"], b["error"]),
                              {"specs": [a["spec"], b["spec"]]})
            continue
        diffs = []
        for v in a["vars"]:
            x, y = a["vars"][v], b["vars"].get(v)
            if y is None or x.shape != y.shape:
                diffs.append(v)
            elif x.dtype.kind == "f":
                if not np.array_equal(x, y, equal_nan=True):
                    diffs.append(v)
            elif x.dtype.kind in "iu" and not np.array_equal(x, y):
                diffs.append(v)
        diffs = [v for v in diffs if v not in ("hypnotoad_inputs", "hypnotoad_inputs_yaml")]
        if diffs:
            res.violation("grid-np-differs:" + name, "grid with number_of_processors>1 differs from the serial grid in %s" % diffs[:8],
                          {"specs": [a["spec"], b["spec"]]})
        else:
            res.traces += 1


def project_tasks(res):
    """the project's own mapped task, with a failing contour at several positions: parallel runs must end exactly like the serial one —
    same results bit for bit, or an exception of the same type (a SolutionError stays a SolutionError)"""
    import json
    import signal
    import subprocess
    import sys

    p = subprocess.Popen([sys.executable, os.path.join(os.path.dirname(os.path.abspath(__file__)), "c13_project.py")], stdout=subprocess.PIPE,
                         stderr=subprocess.STDOUT, text=True, start_new_session=True)
    try:
        out, _ = p.communicate(timeout=240)
    except subprocess.TimeoutExpired:
        os.killpg(p.pid, signal.SIGKILL)
        out, _ = p.communicate()
        res.violation("project-task-hang", "PsiContour.refine through ParallelMap blocks forever when a contour cannot be refined; output so far: %s" % out[-300:], {})
        return
    runs = [json.loads(ln[4:]) for ln in out.splitlines() if ln.startswith("RUN ")]
    if "END" not in out or not runs:
        res.broken("project-task child ended abnormally", out[-500:])
        return
    ref = {}
    seq = {}
    for k, rr in enumerate(runs):
        seq.setdefault(rr["np"], []).append(rr)
    for np_, lst in seq.items():
        for pos, rr in enumerate(lst):
            key = pos
            res.case(key=("project", np_, rr["bad"], pos), nontrivial=True, sample={"task": "PsiContour.refine", "np": np_, "unreachable_contour": rr["bad"]})
            o = rr["out"]
            if np_ == 1:
                ref[key] = o
                continue
            want = ref.get(key)
            if want is None:
                continue
            same = o["kind"] == want["kind"] and (o["value"] == want["value"] if o["kind"] == "ok" else
                                                  (o["type"] == want["type"] and o["is_solution_error"] == want["is_solution_error"]))
            if not same:
                res.violation("project-task-outcome:%s" % ("fail" if rr["bad"] is not None else "ok"),
                              "PsiContour.refine over 4 contours (contour %s unreachable), np=%d: %s; serial: %s"
                              % (rr["bad"], np_, {kk: (vv if kk != "value" else "…") for kk, vv in o.items()}, {kk: (vv if kk != "value" else "…") for kk, vv in want.items()}),
                              {"np": np_, "unreachable_contour": rr["bad"], "call_index": pos})
            else:
                res.traces += 1


def run(res, tier):
    r = vlib.rng("c13")
    res.rule = ("real ParallelMap (np in {1,2,3,5}) on tasks whose sleep times force chosen completion orders (all permutations for n<=4/5 "
                "on >= n workers), random delays with fewer workers than tasks, a raising task at every position (finishing first or last), "
                "two raising tasks, a healthy call on the same workers after a failure; arrival order recorded by wrapping result_queue.get "
                "and replayed through the Lean model; each scenario under a watchdog so a hang is an observation. non-trivial/distinct = "
                "distinct (np, n, arrival order, failing positions)")
    res.trusted += ["multiprocessing.Queue is FIFO and reliable; dill/pickle transport fidelity; the main thread's put phase is atomic in the model",
                    "OS scheduling is not modelled, only its observable effect (arrival order) — the theorems hold for every order"]
    t0 = time.time()
    project_tasks(res)
    t1 = time.time()
    sc = scenarios(r, tier)
    results = run_child(sc, res)
    res.extra["phase_seconds"] = {"project_tasks": round(t1 - t0, 1), "scenarios": round(time.time() - t1, 1)}
    lines, idx = [], []
    for k, s in enumerate(sc):
        got = results.get(k)
        n = len(s["tasks"])
        fails = tuple(i for i, t in enumerate(s["tasks"]) if t["fail"])
        want = serial_outcome(s)
        if got is None:
            res.broken("scenario produced no result", {"scenario": s})
            continue
        if got["kind"] == "skipped-after-hangs":
            continue
        arr = got.get("arrivals", [])
        res.case(key=(s["np"], n, tuple(a[0] for a in arr), fails), nontrivial=(n > 1 or bool(fails)),
                 sample={"np": s["np"], "n": n, "why": s["why"], "arrival_order": [a[0] for a in arr], "failing": list(fails)})
        # direct oracle on the implementation: outcome equals the serial one, never a hang
        if got["kind"] == "hang":
            res.violation("task-raises-hang" if fails else "hang-without-failure",
                          "ParallelMap.__call__ blocks forever (np=%d, %d tasks, failing %s; serial gives %s)" % (s["np"], n, list(fails), want),
                          {"scenario": s})
            continue
        if got["kind"] == "child-died":
            res.broken("child process died", {"scenario": s})
            continue
        same = (got["kind"] == want["kind"]) and (
            got["value"] == want["value"] if want["kind"] == "ok" else (
                (got["type"], got["msg"]) == (want["type"], want["msg"]) or
                # an exception that cannot cross the process boundary arrives as RuntimeError("<type>: <message>")
                (got["type"], got["msg"]) == ("RuntimeError", "%s: %s" % (want["type"], want["msg"]))))
        if not same:
            res.violation("outcome-differs:" + ("fail" if fails else "ok"),
                          "parallel outcome %s differs from serial outcome %s (np=%d, arrival order %s)" % (
                              {k2: got[k2] for k2 in got if k2 in ("kind", "value", "type", "msg")}, want, s["np"], [a[0] for a in arr]),
                          {"scenario": s, "observed": got})
            continue
        if s.get("after_failure") and got.get("alive") is not None and got["alive"] != s["np"]:
            res.violation("workers-lost", "only %d of %d workers alive after earlier failing calls" % (got["alive"], s["np"]), {"scenario": s})
            continue
        if s["np"] > 1:
            # correspondence: replay the observed arrival order through the model
            toks = []
            for i, v in arr:
                toks.append("%d:e:%d" % (i, s["tasks"][i]["value"]) if v == "E" else "%d:o:%d" % (i, v))
            lines.append("c13 %d %s" % (n, " ".join(toks)))
            idx.append((k, want))
    out = vlib.lean_driver(lines) if lines else []
    for (k, want), mo in zip(idx, out):
        exp = ("ok " + " ".join(str(v) for v in want["value"])).strip() if want["kind"] == "ok" else "err %s" % want["msg"].split()[1]
        if mo.strip() != exp:
            res.broken("model replay of the observed arrival order differs from the implementation's result",
                       {"scenario": sc[k], "model": mo, "impl": exp})
        else:
            res.traces += 1
    grid_equal(res, tier)


def replay(rep):
    s = rep["payload"].get("scenario")
    if s is None:
        print("REPLAY: grid-level replay: rebuild the two specs in payload with py/gridlab.py")
        return 1
    r = vlib.Result("C13", "quick")
    got = run_child([s], r).get(0)
    want = serial_outcome(s)
    print("REPLAY: observed %s ; serial outcome %s" % (got, want))
    ok = got and got["kind"] == want["kind"] and (got.get("value") == want.get("value") if want["kind"] == "ok" else got.get("msg") == want.get("msg"))
    return 0 if ok else 1
