"""Child process of the C13 harness: runs scenarios against the real ParallelMap and reports one JSON line per
scenario. Run as  python c13_child.py <scenario-file> ; killed by the parent (process group) on a hang."""
import json
import os
import sys
import time

sys.path.insert(0, os.path.dirname(os.path.dirname(os.path.abspath(__file__))))
import vlib  # noqa: E402

vlib.use_repo()
from hypnotoad.utils.parallel_map import ParallelMap  # noqa: E402


class Eq:
    psi = None
    f_R = None
    f_Z = None


class TaskError(ValueError):
    pass


class TwoArgError(Exception):
    """an exception class whose instances pickle but cannot be un-pickled (required constructor arguments that are not passed on to
    Exception.__init__) — the commonest way a library exception breaks when it crosses a process boundary"""

    def __init__(self, value, why):
        super().__init__("task %d failed" % value)
        self.value, self.why = value, why


def task(delay, value, fail, equilibrium=None, psi=None, f_R=None, f_Z=None, scale=1):
    time.sleep(delay)
    if fail == "ctor2":
        raise TwoArgError(value, "x")
    if fail == "local":
        class LocalError(Exception):     # cannot be pickled at all
            pass
        raise LocalError("task %d failed" % value)
    if fail:
        raise TaskError("task %d failed" % value)
    return value * scale


class Recorder:
    def __init__(self, q):
        self.q = q
        self.log = []

    def get(self, *a, **k):
        r = self.q.get(*a, **k)
        self.log.append(r)
        return r

    def empty(self):
        return self.q.empty()

    def __getattr__(self, n):
        return getattr(self.q, n)


def main():
    scen = json.load(open(sys.argv[1]))
    pms = {}
    for k, s in enumerate(scen):
        if s.get("skip"):
            continue
        np_ = s["np"]
        if np_ not in pms:
            pm = ParallelMap(np_, equilibrium=Eq())
            if pm.workers is not None:
                pm.result_queue = Recorder(pm.result_queue)
            pms[np_] = pm
        pm = pms[np_]
        print("START %d" % k, flush=True)
        if pm.workers is not None:
            pm.result_queue.log = []
        args = [(t["delay"], t["value"], t["fail"]) for t in s["tasks"]]
        t0 = time.time()
        try:
            out = pm(task, args, scale=s.get("scale", 1))
            res = {"kind": "ok", "value": out}
        except BaseException as e:  # noqa
            res = {"kind": "exc", "type": type(e).__name__, "msg": str(e)}
        arr = []
        if pm.workers is not None:
            for i, r in pm.result_queue.log:
                arr.append([i, r if isinstance(r, int) else "E"])
        res["arrivals"] = arr
        res["alive"] = None if pm.workers is None else sum(1 for w in pm.workers if w.is_alive())
        res["wall"] = time.time() - t0
        print("DONE %d %s" % (k, json.dumps(res)), flush=True)
    for pm in pms.values():
        del pm
    print("END", flush=True)


if __name__ == "__main__":
    main()
