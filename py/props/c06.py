"""C06 — zShift, ShiftAngle, dphidy, ShiftTorsion follow the field lines.
Lean model: HypnoModel/Model/Distance.lean (cumtrapz, chainPD); the folds of MeshRegion.calcZShift are replayed through the driver
on FineContour data extracted in-process; direct oracle on the written file."""
import math

import numpy as np

import vlib


def specs(tier):
    import gridlab

    ex = ["contours", "meshmeta", "regions", "stencil"]
    S = [gridlab.tokamak_spec("lsn", fpol="linear", extract=ex, write_twice=True),
         gridlab.tokamak_spec("cdn", fpol="linear", options={"orthogonal": False}, extract=ex),
         gridlab.circular_spec(options={"poloidal_spacing_method": "linear", "finecontour_Nfine": 200}, extract=ex),
         # FineContour left visibly non-uniform (relaxed equalisation tolerance): the integral must use the actual point distances
         gridlab.tokamak_spec("lsn", fpol="const", options={"finecontour_Nfine": 120, "finecontour_atol": 1.0e-3}, extract=ex),
         # the option that modifies Bpxy at the y-faces next to an X-point (it acts when Bp > 0: psi increasing outward)
         gridlab.tokamak_spec("ldn", fpol="linear", options={"cap_Bp_ylow_xpoint": True}, extract=ex)]
    # the curvature smoothing option must leave zShift, dphidy and ShiftTorsion alone
    S.append(gridlab.tokamak_spec("lsn", fpol="linear", options={"curvature_smoothing": "smoothnl"}, extract=ex))
    # a grid on which no two options that could be confused coincide (see gridlab.odd_spec)
    S.append(gridlab.odd_spec("lsn", True, extract=ex))
    if tier == "thorough":
        S += [gridlab.tokamak_spec("ldn", fpol="linear", extract=ex), gridlab.tokamak_spec("udn", fpol="const", options={"orthogonal": False}, extract=ex),
              gridlab.tokamak_spec("usn", fpol="negconst", options={"y_boundary_guards": 2}, extract=ex),
              gridlab.tokamak_spec("lsn", fpol="linear", psi_sign=-1.0, extract=ex),
              gridlab.circular_spec(options={"poloidal_spacing_method": "linear", "finecontour_Nfine": 400, "q_coefficients": [1.5, 0.0, 2.0]}, extract=ex)]
    if tier == "thorough":
        S.append(gridlab.odd_spec("cdn", False, extract=ex))
    return S


def gname(g):
    s = g["spec"]
    o = s.get("options", {})
    return "%s%s%s" % (s.get("geometry", "circular"), "" if o.get("orthogonal", True) else "-nonorth",
                       "-Nfine%d" % o["finecontour_Nfine"] if s.get("case") == "circular" else "")


def expected_chain(C, chain, xi, which):
    """independent replay of calcZShift for the contour 2*xi+1 (which='centre') along a chain: values at every contour point"""
    out = []
    off = 0.0
    for rid in chain:
        c = C["regions"][rid]["contours"][2 * xi + 1 if which == "centre" else 2 * xi]
        x, y = c["fine_d"], c["fine_integrand"]
        cum = np.concatenate([[0.0], np.cumsum(0.5 * (x[1:] - x[:-1]) * (y[1:] + y[:-1]))])
        cum = cum - cum[c["fine_startInd"]]
        z = np.interp(c["d"], x, cum)
        out.append(off + z)
        off = out[-1][-1]
    return out


def oracle(res, g, lines, pend):
    v = g["vars"]
    name = gname(g)
    spec = {"spec": g["spec"]}
    C = g["extras"]["contours"]
    meta = g["extras"]["meshmeta"]
    bad = []
    zc, zy = v["zShift"], v["zShift_ylow"]
    Btsign = np.sign(np.nanmean(v["Btxy"]))
    h = vlib.f2hex
    closed_x = set()
    for chain in C["y_groups"]:
        first = C["regions"][chain[0]]
        periodic = first["connections"]["lower"] is not None
        for xi in range(first["nx"]):
            exp = expected_chain(C, chain, xi, "centre")
            seq, want = [], []
            for rid, e in zip(chain, exp):
                sx, sy = meta["region_indices"][rid]
                x = sx.start + xi
                for k, y in enumerate(range(sy.start, sy.stop)):
                    seq += [zy[x, y], zc[x, y]]
                    want += [e[2 * k], e[2 * k + 1]]
            seq, want = np.array(seq), np.array(want)
            sc = max(1e-300, np.max(np.abs(want)))
            if np.max(np.abs(seq - want)) > 1e-9 * sc:
                k = int(np.argmax(np.abs(seq - want)))
                bad.append(("zshift-integral", "zShift differs from the trapezoid integral of Bt/(R|Bp|) along the chain %s (radial index %d) by %.3g "
                            "of its range at position %d" % (chain, xi, np.max(np.abs(seq - want)) / sc, k)))
                break
            # starts at 0 at the first y-face of the chain; monotone for one sign of Bt; continuous across joins (a jump would show as
            # a disagreement with the expected chain above)
            c0 = C["regions"][chain[0]]["contours"][2 * xi + 1]
            if c0["startInd"] == 0 and abs(seq[0]) > 1e-12 * sc:
                bad.append(("zshift-start", "zShift does not start from 0 at the start of the chain %s" % chain))
                break
            d = np.diff(seq) * Btsign
            if Btsign != 0 and not (d > 0).all():
                bad.append(("zshift-monotone", "zShift is not monotone along the chain %s although Bt has one sign" % chain))
                break
            # ShiftAngle
            sx, _ = meta["region_indices"][chain[0]]
            sa = float(np.ravel(v["ShiftAngle"])[sx.start + xi])
            if periodic:
                tot = exp[-1][-1] - exp[0][0]
                if not abs(sa - tot) <= 1e-9 * abs(tot):
                    bad.append(("shiftangle", "ShiftAngle %r differs from the integral once round the closed surface %r (chain %s)" % (sa, tot, chain)))
                    break
                closed_x.add(sx.start + xi)
            # model correspondence: cumulative trapezoid of one contour of the first region
            c = C["regions"][chain[0]]["contours"][2 * xi + 1]
            if xi == 0:
                lines.append("c06tz %s / %s" % (" ".join(h(t) for t in c["fine_d"]), " ".join(h(t) for t in c["fine_integrand"])))
                x, y = c["fine_d"], c["fine_integrand"]
                pend.append((name, chain[0], np.concatenate([[0.0], np.cumsum(0.5 * (x[1:] - x[:-1]) * (y[1:] + y[:-1]))])))
    # ShiftAngle is a function of the radial index only: defined exactly at the indices that carry a closed surface
    sa_all = np.ravel(v["ShiftAngle"])
    for x in range(len(sa_all)):
        if x not in closed_x and not np.isnan(sa_all[x]):
            bad.append(("shiftangle-open", "ShiftAngle is defined (%r) at radial index %d, which has no closed flux surface" % (float(sa_all[x]), x)))
            break
    # dphidy and ShiftTorsion
    for suf in ("", "_xlow", "_ylow"):
        if "dphidy" + suf not in v:
            continue
        e = np.nanmax(np.abs(v["dphidy" + suf] - v["hy" + suf] * v["Btxy" + suf] / (v["Bpxy" + suf] * v["Rxy" + suf]))) / max(1e-300, np.nanmax(np.abs(v["dphidy" + suf])))
        if e > 1e-12:
            bad.append(("dphidy" + suf, "dphidy%s differs from hy*Btxy/(Bpxy*Rxy) at the same location by %.3g (relative)" % (suf, e)))
    dx = v["dx"]
    nx = dx.shape[0]
    st = v["ShiftTorsion"]
    dpx = v["dphidy_xlow"]
    # centred difference across the cell between its two x-faces (the outermost face of the grid is not stored in the file)
    worst = 0.0
    for rid, (sx, sy) in meta["region_indices"].items():
        # cells whose two x-faces are both stored from this region (the region's outermost face is only in the file as the
        # neighbour's first face, computed there from that region's own contours)
        x1 = sx.stop - 1
        if x1 <= sx.start:
            continue
        want = (dpx[sx.start + 1:x1 + 1, sy] - dpx[sx.start:x1, sy]) / dx[sx.start:x1, sy]
        got = st[sx.start:x1, sy]
        m = np.isfinite(want) & np.isfinite(got)
        if m.any():
            worst = max(worst, float(np.max(np.abs(got[m] - want[m])) / max(1e-300, np.max(np.abs(want[m])))))
    if worst > 1e-9:
        bad.append(("shifttorsion", "ShiftTorsion differs from the centred x-difference of dphidy by %.3g" % worst))
    # at the x-faces: the difference of dphidy between the neighbouring cell centres over their psi difference
    stx = v.get("ShiftTorsion_xlow")
    if stx is not None:
        if not np.isfinite(stx).all():
            bad.append(("shifttorsion-xlow-nonfinite", "ShiftTorsion_xlow has %d non-finite values of %d" % (int((~np.isfinite(stx)).sum()), stx.size)))
        else:
            dpc, px = v["dphidy"], v["psixy"]
            want = (dpc[1:, :] - dpc[:-1, :]) / (px[1:, :] - px[:-1, :])
            got = stx[1:, :]
            e = float(np.nanmax(np.abs(got - want)) / max(1e-300, np.nanmax(np.abs(want))))
            if e > 1e-6:
                bad.append(("shifttorsion-xlow", "ShiftTorsion_xlow differs from the x-difference of dphidy between neighbouring centres by %.3g (relative)" % e))
        dxx = v.get("dx_xlow")
        if dxx is not None and (dxx[1:, :] == 0).any():
            bad.append(("dx-xlow-zero", "dx_xlow is zero at %d interior x-faces" % int((dxx[1:, :] == 0).sum())))
    if g["spec"].get("case") == "circular":
        # ShiftAngle = 2 pi q(r) up to the chord error of the FineContour (and the trapezoid rule)
        q = g["spec"]["options"].get("q_coefficients", None)
        R0 = 0.5 * (np.nanmax(v["Rxy"]) + np.nanmin(v["Rxy"]))
        r = np.hypot(v["Rxy"][:, 0] - R0, v["Zxy"][:, 0])
        sa = np.ravel(v["ShiftAngle"])
        if q is None:
            import yaml  # the evaluated options are embedded in the file
            opts = yaml.safe_load(str(v["hypnotoad_inputs_yaml"]))
            q = opts["q_coefficients"]
        qv = sum(c * r ** k for k, c in enumerate(q))
        rel = np.nanmax(np.abs(sa / (2 * math.pi * qv) - 1.0))
        res.extra.setdefault("circular_shiftangle", {})[name] = {"max_rel_error_vs_2piq": float(rel)}
        N = g["spec"]["options"].get("finecontour_Nfine", 100)
        if rel > 5.0 / N ** 2 + 1e-6:
            bad.append(("circle-q", "circular equilibrium: ShiftAngle differs from 2*pi*q by %.3g (relative)" % rel))
    for wid, msg in bad:
        res.violation(wid + ":" + ("nonorth" if "nonorth" in name else "orth"), msg + " [" + name + "]", spec)
    return not bad


def stencil_lines(g, name, lines, pend):
    """dx at centres / x-faces and DDX('#dphidy') of every region through the stencil model (one radial line per region: the middle y)"""
    h = vlib.f2hex
    for rid, r in g["extras"]["stencil"].items():
        pv = r["psi_vals"]
        opt = lambda x: h(x) if x is not None else ""  # noqa: E731
        lines.append("c06dx %s / %s / %s" % (" ".join(h(t) for t in pv), opt(r["inner_psi"]), opt(r["outer_psi"])))
        pend.append((name, r["name"], ("dx", r["dx_centre"][:, 0], r["dx_xlow"][:, 0])))
        j = r["f_centre"].shape[1] // 2
        fi = None if r["inner_f"] is None else float(r["inner_f"][j])
        fo = None if r["outer_f"] is None else float(r["outer_f"][j])
        lines.append("c06ddx %s / %s / %s / %s / %s / %s" % (" ".join(h(t) for t in r["f_centre"][:, j]), " ".join(h(t) for t in r["f_xlow"][:, j]),
                                                           " ".join(h(t) for t in r["dx_centre"][:, j]), " ".join(h(t) for t in r["dx_xlow"][:, j]), opt(fi), opt(fo)))
        pend.append((name, r["name"], ("ddx", r["ddx_centre"][:, j], r["ddx_xlow"][:, j])))


def run(res, tier):
    import gridlab

    res.rule = ("real grids with non-zero Bt (orthogonal lsn with varying fpol, non-orthogonal cdn, circular): for every chain of y-connected "
                "regions and every radial index the written zShift (faces and centres) against an independent cumulative-trapezoid integral of "
                "Bt/(R|Bp|) over the FineContour, re-zeroed at the start index, interpolated at the contour points and carried across joins; "
                "zero at the chain start, monotone, ShiftAngle = total on closed / NaN on open surfaces, dphidy, ShiftTorsion stencil, "
                "circular 2*pi*q; the cumulative trapezoid itself replayed through the Lean model. distinct by (grid, chain, radial index)")
    res.trusted += ["the FineContour points, their distances and scipy's interp1d/cumulative_trapezoid semantics (re-implemented independently in the oracle)"]
    lines, pend = [], []
    for g in gridlab.get(specs(tier)):
        name = gname(g)
        if g["error"]:
            res.case(key=("grid-refused", name, g["error"][0]), nontrivial=False)
            res.extra.setdefault("refused", []).append([name, g["error"][0], g["error"][1][:300]])
            continue
        nchains = len(g["extras"]["contours"]["y_groups"])
        for k in range(nchains):
            res.case(key=("grid", name, k), nontrivial=True, sample={"grid": name, "chain": g["extras"]["contours"]["y_groups"][k]} if k == 0 else None)
        if g.get("vars2") is not None:
            # a second grid file written from the same mesh: zShift, ShiftAngle, dphidy, ShiftTorsion (and everything else) unchanged
            diff = [k for k, a in g["vars"].items() if k in g["vars2"] and getattr(a, "dtype", None) is not None and a.dtype.kind == "f"
                    and not np.array_equal(a, g["vars2"][k], equal_nan=True)]
            if diff:
                k0 = next((k for k in diff if k.startswith("zShift")), diff[0])
                with np.errstate(all="ignore"):
                    d0 = float(np.nanmax(np.abs(np.nan_to_num(g["vars"][k0], nan=0.0, posinf=0.0, neginf=0.0) - np.nan_to_num(g["vars2"][k0], nan=0.0, posinf=0.0, neginf=0.0))))
                res.violation("second-write-differs", "%s: a second grid file written from the same mesh differs from the first in %s (%s by %.3g): writing the file changed "
                              "the mesh's arrays" % (name, diff[:6], k0, d0), {"spec": g["spec"]})
        if oracle(res, g, lines, pend):
            res.traces += 1
        stencil_lines(g, name, lines, pend)
    try:
        mo = vlib.lean_driver(lines) if lines else []
    except Exception as ex:
        res.broken("model driver failed", str(ex)[-500:])
        return
    for (name, rid, want), m in zip(pend, mo):
        if isinstance(want, tuple):
            kind, w1, w2 = want
            res.case(key=(kind, name, rid), nontrivial=True)
            p1, p2 = m.split("|")
            g1 = np.array([vlib.hex2f(t) for t in p1.split()])
            g2 = np.array([vlib.hex2f(t) for t in p2.split()])
            bad = None
            for lab, gg, ww in (("centre", g1, w1), ("x-faces", g2, w2)):
                if len(gg) != len(ww) or np.max(np.abs(gg - ww)) > 1e-11 * max(1e-300, np.max(np.abs(ww))):
                    bad = lab
            if bad:
                i = int(np.argmax(np.abs(g2 - w2))) if bad == "x-faces" and len(g2) == len(w2) else -1
                what = "dx" if kind == "dx" else "ShiftTorsion = DDX(dphidy)"
                if kind == "dx" and bad == "x-faces" and len(g2) == len(w2):
                    res.violation("dx-faces:%s" % name, "%s region %s: dx at x-face %d is %r; the psi difference between the neighbouring cell centres is %r"
                                  % (name, rid, i, float(w2[i]), float(g2[i])), {"grid": name, "region": rid})
                else:
                    res.broken("%s at the %s differs from the stencil model" % (what, bad), {"grid": name, "region": rid, "model": g2.tolist()[:6], "implementation": np.asarray(w2).tolist()[:6]})
            else:
                res.traces += 1
            continue
        got = np.array([vlib.hex2f(t) for t in m.split()])
        res.case(key=("cumtrapz", name, rid), nontrivial=True)
        if len(got) != len(want) or np.max(np.abs(got - want)) > 1e-12 * max(1e-300, np.max(np.abs(want))):
            res.broken("cumulative trapezoid of the Lean model differs", {"grid": name, "region": rid})
        else:
            res.traces += 1


def replay(rep):
    print("REPLAY: re-run `py/check.py C06`; payload:", rep["payload"])
    return 1
