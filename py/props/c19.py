"""C19 — critical points are found, classified, ordered and selected correctly.
Generated model of the classification stencil (py/gen/gen_critical.py) + hand model of the post-processing
(lean/HypnoModel/Model/Critical.lean); direct oracle on analytic flux functions whose critical points are known."""
import contextlib
import io
import math
import os
import sys
import warnings

import numpy as np

import vlib


def pre(res):
    from gen import gen_critical, gen_tokamak

    try:
        changed = gen_critical.main()
        changed = gen_tokamak.main() or changed
        res.extra["generated"] = {"files": ["lean/HypnoModel/Gen/Critical.lean", "lean/HypnoModel/Gen/Tokamak.lean"], "changed_since_last_run": bool(changed)}
    except Exception as e:
        res.extra["generated"] = {"error": "%s: %s" % (type(e).__name__, e)}
        res.gen_error = "%s: %s" % (type(e).__name__, e)


class Family:
    """psi = s * sum_k A_k exp(-q_k) with tilted elliptical Gaussians; analytic gradient and Hessian"""

    def __init__(self, r, nblob=None):
        self.s = r.choice([-1.0, 1.0])
        n = nblob or r.choice([2, 2, 3])
        self.blobs = []
        cen = [(1.5 + r.uniform(-0.05, 0.05), r.uniform(-0.08, 0.08))]
        self.offaxis = r.random() < 0.35
        if self.offaxis:
            # magnetic axis outboard of the middle of the domain, a second current channel well inboard: the O-points sit at different
            # major radii, so which one is nearest to the middle of the domain depends on the R coordinate of that middle
            cen = [(1.5 + r.uniform(0.12, 0.2), r.uniform(-0.08, 0.08))]
        if n >= 2 and self.offaxis:
            cen.append((1.5 - r.uniform(0.28, 0.36), r.choice([-1, 1]) * r.uniform(0.3, 0.5)))
        elif n >= 2:
            cen.append((1.5 + r.uniform(-0.08, 0.08), r.choice([-1, 1]) * r.uniform(0.5, 0.65)))
        if n >= 3:
            cen.append((1.5 + r.uniform(-0.08, 0.08), -math.copysign(1, cen[1][1]) * r.uniform(0.5, 0.65)))
        for k, (rc, zc) in enumerate(cen):
            kap = r.uniform(1.0, 2.2) if r.random() < 0.6 else 1.0
            th = r.uniform(-0.8, 0.8) if kap > 1.0 else 0.0
            w = r.uniform(0.27, 0.33)
            a, b = 1.0 / w ** 2, 1.0 / (w * kap) ** 2
            c, s = math.cos(th), math.sin(th)
            # q = a u^2 + b v^2 with (u,v) rotated
            qrr = a * c * c + b * s * s
            qzz = a * s * s + b * c * c
            qrz = (a - b) * c * s
            self.blobs.append((r.uniform(0.8, 1.2), rc, zc, qrr, qzz, qrz))

    def psi(self, R, Z):
        out = 0.0
        for A, rc, zc, qrr, qzz, qrz in self.blobs:
            u, v = R - rc, Z - zc
            out = out + A * np.exp(-(qrr * u * u + qzz * v * v + 2 * qrz * u * v))
        return self.s * out

    def grad(self, R, Z):
        gr, gz = 0.0, 0.0
        for A, rc, zc, qrr, qzz, qrz in self.blobs:
            u, v = R - rc, Z - zc
            e = A * np.exp(-(qrr * u * u + qzz * v * v + 2 * qrz * u * v))
            gr = gr + e * (-(2 * qrr * u + 2 * qrz * v))
            gz = gz + e * (-(2 * qzz * v + 2 * qrz * u))
        return self.s * gr, self.s * gz

    def hess(self, R, Z):
        h = 1e-6
        g1 = self.grad(R + h, Z)
        g0 = self.grad(R - h, Z)
        g3 = self.grad(R, Z + h)
        g2 = self.grad(R, Z - h)
        return (g1[0] - g0[0]) / (2 * h), (g3[1] - g2[1]) / (2 * h), (g1[1] - g0[1]) / (2 * h)

    def critical_points(self, box):
        from scipy.optimize import root

        (Rlo, Rhi), (Zlo, Zhi) = box
        found = []
        for R0 in np.linspace(Rlo, Rhi, 17):
            for Z0 in np.linspace(Zlo, Zhi, 25):
                sol = root(lambda x: self.grad(x[0], x[1]), [R0, Z0], tol=1e-13)
                if not sol.success:
                    continue
                R, Z = sol.x
                if not (Rlo <= R <= Rhi and Zlo <= Z <= Zhi):
                    continue
                g = self.grad(R, Z)
                if math.hypot(*g) > 1e-9:
                    continue
                if any(math.hypot(R - a, Z - b) < 1e-6 for a, b, _ in found):
                    continue
                hrr, hzz, hrz = self.hess(R, Z)
                found.append((R, Z, hrr * hzz - hrz ** 2))
        return found


def find(Rg, Zg, psi, atol=1e-6, maxits=10):
    from hypnotoad.utils import critical

    with warnings.catch_warnings(), contextlib.redirect_stdout(io.StringIO()):
        warnings.simplefilter("ignore")
        return critical.find_critical(Rg, Zg, psi, atol, maxits)


def filter_passes(fam, o, x):
    """the documented monotonicity filter evaluated on the analytic function (50 samples on the straight line from O to X)"""
    rl, zl = np.linspace(o[0], x[0], 50), np.linspace(o[1], x[1], 50)
    p = fam.psi(rl, zl)
    if fam.psi(x[0], x[1]) < fam.psi(o[0], o[1]):
        p = -p
    maxp = p.max()
    if (maxp - p[-1]) / (maxp - p[0]) > 0.001:
        return False
    k = int(np.argmin(p))
    return (rl[k] - o[0]) ** 2 + (zl[k] - o[1]) ** 2 <= 1e-4


def check_family(res, r, k, lines, pend):
    fam = Family(r)
    nx, ny = r.choice([(65, 65), (65, 97), (81, 65), (129, 129)])
    R1, Z1 = np.linspace(1.0, 2.0, nx), np.linspace(-1.0, 1.0, ny)
    # shift the grid by a random sub-cell offset so that critical points sit at arbitrary sub-grid positions
    R1 = R1 + r.uniform(0, 1) * (R1[1] - R1[0])
    Z1 = Z1 + r.uniform(0, 1) * (Z1[1] - Z1[0])
    Rg, Zg = np.meshgrid(R1, Z1, indexing="ij")
    psi = fam.psi(Rg, Zg)
    dR, dZ = R1[1] - R1[0], Z1[1] - Z1[0]
    interior = ((R1[2], R1[-3]), (Z1[2], Z1[-3]))
    truth = fam.critical_points(((R1[0], R1[-1]), (Z1[0], Z1[-1])))
    payload = {"family": {"s": fam.s, "blobs": fam.blobs}, "grid": [nx, ny], "R0": float(R1[0]), "Z0": float(Z1[0])}
    # well separated and non-degenerate cases only (the property's quantifier)
    scale = np.max(np.abs(psi))
    ok = all(abs(d) > 0.5 * scale ** 2 for _, _, d in truth)
    for i in range(len(truth)):
        for j in range(i):
            if math.hypot(truth[i][0] - truth[j][0], truth[i][1] - truth[j][1]) < 6 * max(dR, dZ):
                ok = False
    margin = 3 * max(dR, dZ)
    near_edge = [t for t in truth if not (interior[0][0] + margin <= t[0] <= interior[0][1] - margin and interior[1][0] + margin <= t[1] <= interior[1][1] - margin)
                 and (interior[0][0] - margin <= t[0] <= interior[0][1] + margin and interior[1][0] - margin <= t[1] <= interior[1][1] + margin)]
    if not ok or near_edge or not truth:
        res.case(key=("skipped-degenerate", k), nontrivial=False)
        return
    inside = [t for t in truth if interior[0][0] <= t[0] <= interior[0][1] and interior[1][0] <= t[1] <= interior[1][1]]
    try:
        opts, xpts = find(Rg, Zg, psi)
    except Exception as ex:
        res.violation("find-raises", "find_critical raises %s: %s" % (type(ex).__name__, str(ex)[:100]), payload)
        return
    res.case(key=("family", k, nx, ny, len(inside)), nontrivial=True,
             sample={"grid": [nx, ny], "true_points": [(round(a, 4), round(b, 4), "X" if d < 0 else "O") for a, b, d in inside]} if len(res.samples) < 5 else None)
    tol = 0.5 * max(dR, dZ)
    true_o = [t for t in inside if t[2] > 0]
    true_x = [t for t in inside if t[2] < 0]
    bad = []
    flat = [0]
    # every returned point is a genuine critical point of the right kind
    for kind, got, tr in (("O", opts, true_o), ("X", xpts, true_x)):
        for p in got:
            m = [t for t in tr if math.hypot(p[0] - t[0], p[1] - t[1]) < tol]
            if not m:
                other = [t for t in (true_x if kind == "O" else true_o) if math.hypot(p[0] - t[0], p[1] - t[1]) < tol]
                g = fam.grad(p[0], p[1])
                if not other and math.hypot(*g) / p[0] <= 2e-3:
                    # |Bp| is below the requested tolerance (Br^2+Bz^2 < atol = 1e-6): an almost-flat spot, accepted by the
                    # acceptance test the property refers to ("vanishes to the requested tolerance")
                    flat[0] += 1
                    continue
                if other:
                    bad.append(("misclassified", "%s-point reported at (%.4f, %.4f) where the analytic Hessian determinant has the sign of an %s-point" % (
                        kind, p[0], p[1], "X" if kind == "O" else "O")))
                else:
                    bad.append(("spurious", "%s-point reported at (%.4f, %.4f) where grad psi does not vanish" % (kind, p[0], p[1])))
            else:
                t = m[0]
                g = fam.grad(p[0], p[1])
                if math.hypot(*g) / p[0] > 3e-3 * max(1.0, scale):
                    bad.append(("not-converged", "returned point (%.5f, %.5f): |Bp| = %.3g exceeds the requested tolerance" % (p[0], p[1], math.hypot(*g) / p[0])))
        # exactly once
        for t in tr:
            m = [p for p in got if math.hypot(p[0] - t[0], p[1] - t[1]) < tol]
            if len(m) > 1:
                bad.append(("duplicate", "%s-point at (%.4f, %.4f) returned %d times" % (kind, t[0], t[1], len(m))))
    for t in true_o:
        if not any(math.hypot(p[0] - t[0], p[1] - t[1]) < tol for p in opts):
            wrong = any(math.hypot(p[0] - t[0], p[1] - t[1]) < tol for p in xpts)
            if not wrong:
                bad.append(("missed-o", "O-point at (%.4f, %.4f) not returned" % (t[0], t[1])))
    if opts:
        o0 = opts[0]
        Rmid, Zmid = 0.5 * (R1[0] + R1[-1]), 0.5 * (Z1[0] + Z1[-1])
        d0 = (o0[0] - Rmid) ** 2 + (o0[1] - Zmid) ** 2
        if any((p[0] - Rmid) ** 2 + (p[1] - Zmid) ** 2 < d0 - 1e-12 for p in opts):
            bad.append(("primary-o", "the first O-point is not the one nearest the middle of the domain"))
        keys = [abs(p[2] - o0[2]) for p in xpts]
        if any(b < a - 1e-12 for a, b in zip(keys, keys[1:])):
            bad.append(("x-order", "X-points are not ordered by |psi - psi_axis|"))
        for t in true_x:
            found = any(math.hypot(p[0] - t[0], p[1] - t[1]) < tol for p in xpts)
            if not found and filter_passes(fam, o0, t) and not any(math.hypot(p[0] - t[0], p[1] - t[1]) < tol for p in opts):
                # why: the scan only starts a Newton search from nodes that are strict 8-neighbour minima of Bp^2 and abandons it
                # 3 cell diagonals away; in a shallow valley of Bp^2 between two critical points there may be no such node near one of them
                from scipy import interpolate

                fs = interpolate.RectBivariateSpline(R1, Z1, psi)
                B2 = (fs(Rg, Zg, dx=1, grid=False) ** 2 + fs(Rg, Zg, dy=1, grid=False) ** 2) / Rg ** 2
                rad = 3.0 * math.hypot(dR, dZ)
                near = False
                nodes = []
                for i in range(2, nx - 2):
                    for j in range(2, ny - 2):
                        if math.hypot(R1[i] - t[0], Z1[j] - t[1]) < rad and all(
                                B2[i, j] < B2[i + a, j + b] for a in (-1, 0, 1) for b in (-1, 0, 1) if (a, b) != (0, 0)):
                            near = True
                            nodes.append((i, j))
                # classification only (not a judgement): does the Newton iteration of the code, started from each of these nodes, leave the
                # search radius (3 cell diagonals from the node) before it converges?
                leaves = bool(nodes)
                for (i, j) in nodes:
                    Rn, Zn, left = float(R1[i]), float(Z1[j]), False
                    for _it in range(50):
                        Br, Bz = -float(fs(Rn, Zn, dy=1, grid=False)) / Rn, float(fs(Rn, Zn, dx=1, grid=False)) / Rn
                        if Br ** 2 + Bz ** 2 < 1e-6:
                            break
                        Jm = np.array([[-Br / Rn - float(fs(Rn, Zn, dx=1, dy=1)[0][0]) / Rn, -float(fs(Rn, Zn, dy=2)[0][0]) / Rn],
                                       [-Bz / Rn + float(fs(Rn, Zn, dx=2)[0][0]) / Rn, float(fs(Rn, Zn, dx=1, dy=1)[0][0]) / Rn]])
                        try:
                            d_ = np.linalg.solve(Jm, [Br, Bz])
                        except np.linalg.LinAlgError:
                            left = True
                            break
                        Rn, Zn = Rn - d_[0], Zn - d_[1]
                        if (Rn - R1[i]) ** 2 + (Zn - Z1[j]) ** 2 > 9 * (dR ** 2 + dZ ** 2):
                            left = True
                            break
                    leaves = leaves and left
                if near and leaves:
                    bad.append(("missed-x:newton-from-the-node-minimum-leaves-the-search-radius",
                                "X-point at (%.4f, %.4f) not returned: the only strict node minima of Bp^2 within three cell diagonals are %s, and the Newton "
                                "iteration started there leaves the search radius" % (t[0], t[1], [(round(float(R1[i]), 4), round(float(Z1[j]), 4)) for i, j in nodes])))
                elif near:
                    bad.append(("missed-x", "X-point at (%.4f, %.4f) (psi monotonic from the axis) not returned" % (t[0], t[1])))
                else:
                    bad.append(("missed-x:no-node-minimum-of-Bp2-within-search-radius",
                                "X-point at (%.4f, %.4f) (psi monotonic from the axis) not returned: no grid node within 3 cell diagonals of it is a strict "
                                "8-neighbour minimum of Bp^2, so the scan never starts a search that can reach it" % (t[0], t[1])))
        # model correspondence on the returned lists: dedup keeps them, sort orders reproduce them
        h = vlib.f2hex
        if len(xpts) > 1:
            lines.append("c19sx %s %s" % (h(o0[2]), " ".join(h(float(c)) for p in xpts for c in p)))
            pend.append(("sx", list(range(len(xpts))), payload))
        if len(opts) > 1:
            lines.append("c19so %s %s %s" % (h(Rmid), h(Zmid), " ".join(h(float(c)) for p in opts for c in p)))
            pend.append(("so", list(range(len(opts))), payload))
        allp = list(opts) + list(xpts)
        lines.append("c19dup %s %s" % (h(1e-5), " ".join(h(float(c)) for p in allp for c in p)))
        pend.append(("dup", list(range(len(allp))), payload))
    # classification stencil twin at the node nearest each true critical point
    for t in inside:
        i, j = int(np.argmin(np.abs(R1 - t[0]))), int(np.argmin(np.abs(Z1 - t[1])))
        if 2 <= i < nx - 2 and 2 <= j < ny - 2:
            st = [psi[i + a, j + b] for a in (-2, 0, 2) for b in (-2, 0, 2)]
            lines.append("c19d %s %s %s" % (vlib.f2hex(dR), vlib.f2hex(dZ), " ".join(vlib.f2hex(float(s)) for s in st)))
            d2dr2 = (psi[i + 2, j] - 2 * psi[i, j] + psi[i - 2, j]) / (2 * dR) ** 2
            d2dz2 = (psi[i, j + 2] - 2 * psi[i, j] + psi[i, j - 2]) / (2 * dZ) ** 2
            d2 = ((psi[i + 2, j + 2] - psi[i + 2, j - 2]) / (4 * dZ) - (psi[i - 2, j + 2] - psi[i - 2, j - 2]) / (4 * dZ)) / (4 * dR)
            pend.append(("D", (d2dr2 * d2dz2 - d2 ** 2, t[2]), payload))
    res.extra["near_flat_points_within_tolerance"] = res.extra.get("near_flat_points_within_tolerance", 0) + flat[0]
    for wid, msg in bad:
        res.violation(wid, msg, payload)
    if not bad:
        res.traces += 1


def tokamak_level(res, tier):
    """single / double null by the number of X-points inside the wall and within psinorm_sol; legs inner/outer by major radius"""
    from hypnotoad import tokamak

    ex = os.path.join(vlib.REPO, "examples", "tokamak")
    if ex not in sys.path:
        sys.path.insert(0, ex)
    import tokamak_example

    wall = [(1.25, -0.45), (1.25, 0.45), (1.75, 0.45), (1.75, -0.45)]
    base = dict(nx_core=2, nx_sol=2, ny_inner_divertor=3, ny_outer_divertor=4, ny_sol=8, psinorm_core=0.9)
    cases = [("lsn", 1.1, "single"), ("usn", 1.1, "single"), ("cdn", 1.1, "double"), ("udn2", 1.05, "single"), ("udn2", 1.4, "double"),
             ("ldn", 1.2, "double"), ("udn", 1.2, "double")]
    for geo, pn, want in cases:
        r1, z1, p2, p1 = tokamak_example.create_tokamak(geometry=geo)
        o = dict(base, psinorm_sol=pn)
        if want == "double" and geo != "cdn":
            o.update(nx_inter_sep=1)
        res.case(key=("tokamak", geo, pn), nontrivial=True, sample={"geometry": geo, "psinorm_sol": pn, "expected": want})
        payload = {"geometry": geo, "psinorm_sol": pn}
        try:
            with warnings.catch_warnings(), contextlib.redirect_stdout(io.StringIO()):
                warnings.simplefilter("ignore")
                eq = tokamak.TokamakEquilibrium(r1, z1, p2, p1, [], settings=o, wall=wall)
        except Exception as ex2:
            res.violation("tokamak-raises:" + geo, "equilibrium construction fails: %s: %s" % (type(ex2).__name__, str(ex2)[:120]), payload)
            continue
        got = "single" if len(eq.x_points) == 1 else "double"
        # independent count: X-points found, inside the wall box, psinorm < psinorm_sol
        if got != want:
            res.violation("null-count:" + geo, "treated as %s null, expected %s null for psinorm_sol=%s" % (got, want, pn), payload)
            continue
        # primary X-point is the one closest in psi to the axis; psinorm of the kept X-points below psinorm_sol
        pn_x = [(ps - eq.psi_axis) / (eq.psi_bdry - eq.psi_axis) for ps in eq.psi_sep]
        if any(q >= pn + 1e-9 for q in pn_x) or abs(pn_x[0] - 1.0) > 1e-9:
            res.violation("xpoint-selection:" + geo, "kept X-points have psinorm %s with psinorm_sol=%s" % (pn_x, pn), payload)
            continue
        # legs: the region named inner_* ends at a strike point of smaller major radius than the matching outer_* region
        okk = True
        for side in ("lower", "upper"):
            a, b = "inner_%s_divertor" % side, "outer_%s_divertor" % side
            if a in eq.regions and b in eq.regions:
                ra = eq.regions[a]
                rb = eq.regions[b]
                # the wall end is the end that is not an X-point: first point for wall.X, last for X.wall
                pa = ra.points[0] if ra.kind.startswith("wall") else ra.points[-1]
                pb = rb.points[0] if rb.kind.startswith("wall") else rb.points[-1]
                if not pa.R < pb.R:
                    okk = False
                    res.violation("legs:" + geo, "strike point of %s (R=%.4f) is not at smaller major radius than that of %s (R=%.4f)" % (a, pa.R, b, pb.R), payload)
        if okk:
            res.traces += 1


def null_count_with_psi_sol(res, tier):
    """the SOL edge given as an unnormalised psi value (documented to override psinorm_sol): single / double null is decided by the X-points within
    THAT edge"""
    from hypnotoad import tokamak

    ex = os.path.join(vlib.REPO, "examples", "tokamak")
    if ex not in sys.path:
        sys.path.insert(0, ex)
    import tokamak_example

    wall = [(1.25, -0.45), (1.25, 0.45), (1.75, 0.45), (1.75, -0.45)]
    base = dict(nx_core=2, nx_sol=2, ny_inner_divertor=3, ny_outer_divertor=4, ny_sol=8, psinorm_core=0.9)
    r1, z1, p2, p1 = tokamak_example.create_tokamak(geometry="udn2")
    try:
        with warnings.catch_warnings(), contextlib.redirect_stdout(io.StringIO()):
            warnings.simplefilter("ignore")
            e0 = tokamak.TokamakEquilibrium(r1, z1, p2.copy(), p1.copy(), [], settings=dict(base, psinorm_sol=1.05), wall=wall)
    except Exception as ex2:
        res.extra.setdefault("psi_sol_refused", []).append(str(ex2)[:120])
        return
    psi_of = lambda pn: float(e0.psi_axis + pn * (e0.psi_bdry - e0.psi_axis))  # noqa: E731
    # the second X-point of this equilibrium sits at psinorm ~ 1.16
    for pn_edge, pn_opt, want in ((1.4, 1.1, "double"), (1.1, 1.3, "single")):
        o = dict(base, psinorm_sol=pn_opt, psinorm_sol_inner=pn_opt, psi_sol=psi_of(pn_edge), psi_sol_inner=psi_of(pn_edge))
        if want == "double":
            o.update(nx_inter_sep=1)
        res.case(key=("null-count-psi_sol", pn_edge, pn_opt), nontrivial=True, sample={"op": "null count with psi_sol", "psi_sol_as_psinorm": pn_edge, "psinorm_sol": pn_opt, "expected": want})
        payload = {"geometry": "udn2", "psi_sol_as_psinorm": pn_edge, "psinorm_sol": pn_opt}
        try:
            with warnings.catch_warnings(), contextlib.redirect_stdout(io.StringIO()):
                warnings.simplefilter("ignore")
                eq = tokamak.TokamakEquilibrium(r1, z1, p2.copy(), p1.copy(), [], settings=o, wall=wall)
        except Exception as ex2:
            res.violation("null-count-psi_sol-raises", "udn2 with psi_sol at psinorm %.2f (psinorm_sol option %.2f): construction fails: %s: %s" % (
                pn_edge, pn_opt, type(ex2).__name__, str(ex2)[:120]), payload)
            continue
        got = "single" if len(eq.x_points) == 1 else "double"
        if got != want:
            res.violation("null-count-psi_sol", "udn2 with psi_sol at psinorm %.2f and the psinorm_sol option left at %.2f is treated as %s null, expected %s (the second "
                          "X-point is at psinorm ~1.16)" % (pn_edge, pn_opt, got, want), payload)
        else:
            res.traces += 1


def legs_level(res, tier):
    """findLegs on figure-of-eight separatrices (two equal Gaussians) with a plain and with a baffled divertor wall: with the baffle the leg
    that leaves the X-point at smaller R reaches the wall at LARGER R than the other one, so only the strike points decide inner / outer"""
    from hypnotoad import tokamak

    nx, ny, r0 = 65, 97, 1.5
    walls = {"plain": [(1.15, -0.5), (1.85, -0.5), (1.85, 0.45), (1.15, 0.45)],
             "baffle-outboard": [(1.15, -0.95), (1.85, -0.95), (1.85, -0.47), (1.55, -0.47), (1.55, -0.42), (1.85, -0.42), (1.85, 0.45), (1.15, 0.45)],
             "baffle-inboard": [(1.15, -0.95), (1.85, -0.95), (1.85, 0.45), (1.15, 0.45), (1.15, -0.42), (1.45, -0.42), (1.45, -0.47), (1.15, -0.47)]}
    for upper in (False, True):
        for wname, wall in walls.items():
            sgn = -1.0 if upper else 1.0
            r1 = np.linspace(1.1, 1.9, nx)
            z1 = np.sort(sgn * np.linspace(-1.0, 0.5, ny))
            R2, Z2 = np.meshgrid(r1, z1, indexing="ij")
            zx = -0.3 * sgn
            p2 = np.exp(-((R2 - r0) ** 2 + Z2 ** 2) / 0.09) + np.exp(-((R2 - r0) ** 2 + (Z2 - 2.0 * zx) ** 2) / 0.09)
            w = [(a, sgn * b) for a, b in wall]
            payload = {"family": "figure-of-eight", "upper": upper, "wall": w}
            res.case(key=("legs", upper, wname), nontrivial=wname != "plain", sample={"op": "findLegs", "upper_null": upper, "wall": wname})
            try:
                with warnings.catch_warnings(), contextlib.redirect_stdout(io.StringIO()):
                    warnings.simplefilter("ignore")
                    eq = tokamak.TokamakEquilibrium(r1, z1, p2, np.linspace(0.0, 1.0, nx), np.linspace(0.0, 1.0, nx), wall=w, make_regions=False)
                    if len(eq.x_points) != 1:
                        res.extra.setdefault("legs_skipped", []).append([upper, wname, len(eq.x_points)])
                        continue
                    legs = eq.findLegs(eq.x_points[0])
            except Exception as ex2:  # explicit refusal
                res.extra.setdefault("legs_refused", []).append([upper, wname, "%s: %s" % (type(ex2).__name__, str(ex2)[:100])])
                continue
            ri, ro = float(legs["inner"][-1].R), float(legs["outer"][-1].R)
            res.extra.setdefault("legs", {})["%s %s" % ("upper" if upper else "lower", wname)] = {
                "strike_R_inner": ri, "strike_R_outer": ro, "start_R_inner": float(legs["inner"][1].R), "start_R_outer": float(legs["outer"][1].R)}
            if not ri < ro:
                res.violation("legs-strike-order:" + wname, "%s X-point, %s wall: the leg labelled inner strikes the wall at R=%.4f, the one labelled outer at R=%.4f"
                              % ("upper" if upper else "lower", wname, ri, ro), payload)
            else:
                res.traces += 1


def close_pairs(res, tier):
    """two critical points of the same kind a few cells apart, each with its own strict node minimum of Bp^2 (a snowflake-minus style divertor: two
    first-order X-points side by side under a compact plasma): both must be returned, each exactly once"""
    from scipy.optimize import fsolve
    from hypnotoad.utils import critical

    r0, zo, w = 1.5, 0.25, 0.15
    for rs, zs, a, k, n in [(1.507, -0.55, 0.04, 0.05, 65), (1.493, -0.52, 0.05, 0.05, 65)] + ([(1.507, -0.55, 0.03, 0.05, 97)] if tier == "thorough" else []):
        def grad(p):
            R, Z = p
            x, y = R - rs, Z - zs
            g = np.exp(-((R - r0) ** 2 + (Z - zo) ** 2) / w ** 2)
            return [-2.0 * (R - r0) / w ** 2 * g + k * (3.0 * x ** 2 - 3.0 * y ** 2 - 3.0 * a ** 2), -2.0 * (Z - zo) / w ** 2 * g + k * (-6.0 * x * y)]

        r1, z1 = np.linspace(1.0, 2.0, n), np.linspace(-1.0, 1.0, n)
        R2, Z2 = np.meshgrid(r1, z1, indexing="ij")
        psi = np.exp(-((R2 - r0) ** 2 + (Z2 - zo) ** 2) / w ** 2) + k * ((R2 - rs) ** 3 - 3.0 * (R2 - rs) * (Z2 - zs) ** 2 - 3.0 * a ** 2 * (R2 - rs))
        truth = []
        with warnings.catch_warnings():
            warnings.simplefilter("ignore")
            for sx in np.linspace(-2.5 * a, 2.5 * a, 11):
                for sy in np.linspace(-1.5 * a, 1.5 * a, 7):
                    sol, _info, ier, _ = fsolve(grad, [rs + sx, zs + sy], full_output=True, xtol=1e-13)
                    g_ = grad(sol)
                    if ier != 1 or g_[0] ** 2 + g_[1] ** 2 > 1e-22 or abs(sol[0] - rs) > 3 * a or abs(sol[1] - zs) > 2 * a:
                        continue
                    h_ = 1e-6
                    pRR = (grad([sol[0] + h_, sol[1]])[0] - grad([sol[0] - h_, sol[1]])[0]) / (2 * h_)
                    pZZ = (grad([sol[0], sol[1] + h_])[1] - grad([sol[0], sol[1] - h_])[1]) / (2 * h_)
                    pRZ = (grad([sol[0], sol[1] + h_])[0] - grad([sol[0], sol[1] - h_])[0]) / (2 * h_)
                    if pRR * pZZ - pRZ ** 2 < 0 and all(np.hypot(sol[0] - t_[0], sol[1] - t_[1]) > 1e-6 for t_ in truth):
                        truth.append((float(sol[0]), float(sol[1])))
        dR = r1[1] - r1[0]
        payload = {"family": "snowflake-minus", "rs": rs, "zs": zs, "a": a, "k": k, "n": n}
        res.case(key=("close-pair", rs, a, n), nontrivial=True, sample={"op": "two X-points a few cells apart", "separation_cells": (2 * a) / dR})
        if len(truth) != 2:
            res.extra.setdefault("close_pair_skipped", []).append([payload, len(truth)])
            continue
        with warnings.catch_warnings(), contextlib.redirect_stdout(io.StringIO()):
            warnings.simplefilter("ignore")
            opts, xpts = critical.find_critical(R2, Z2, psi, 1e-14, 1000)
        ok = True
        for t_ in truth:
            hits = [p for p in xpts if np.hypot(p[0] - t_[0], p[1] - t_[1]) < 2e-3]
            if len(hits) != 1:
                ok = False
                res.violation("close-pair-x-count", "two X-points %.2f cells apart (snowflake-minus, %dx%d grid): the X-point at (%.5f, %.5f) is returned %d times; X-points "
                              "returned: %s" % (np.hypot(truth[0][0] - truth[1][0], truth[0][1] - truth[1][1]) / dR, n, n, t_[0], t_[1], len(hits),
                                                [(round(float(p[0]), 4), round(float(p[1]), 4)) for p in xpts]), payload)
        if ok:
            res.traces += 1


def run(res, tier):
    r = vlib.rng("c19")
    res.rule = ("analytic flux functions (2-3 tilted elliptical Gaussians, either sign, elongation up to 2.2, tilt up to 0.8 rad) on grids of "
                "several resolutions with random sub-cell offsets; true critical points by Newton on the analytic gradient from 425 starts, "
                "classified by the analytic Hessian; cases with near-degenerate or close (< 6 cells) points are skipped; oracle: no spurious / "
                "misclassified / duplicated / missed points (X-points subject to the documented monotonicity filter evaluated analytically), "
                "primary O nearest the centre, X ordered by |psi - psi_axis|; TokamakEquilibrium null count and leg labelling on the shipped "
                "families with psinorm_sol either side of the second X-point; Float twins: classification stencil (generated) and "
                "dedup/sort (hand model) on the returned lists. distinct by (family index, grid)")
    res.trusted += ["scipy RectBivariateSpline inside find_critical; Newton convergence is not modelled (only its acceptance test)"]
    lines, pend = [], []
    for k in range(40 if tier == "quick" else 600):
        check_family(res, r, k, lines, pend)
    tokamak_level(res, tier)
    legs_level(res, tier)
    close_pairs(res, tier)
    null_count_with_psi_sol(res, tier)
    lines.append("c19n 0"); pend.append(("n", "refuse", None))
    lines.append("c19n 1"); pend.append(("n", "single", None))
    lines.append("c19n 2"); pend.append(("n", "double", None))
    lines.append("c19n 3"); pend.append(("n", "refuse", None))
    if res.gen_error:
        res.broken("translator could not regenerate the model (fail-closed)", res.gen_error)
        return
    try:
        mo = vlib.lean_driver(lines)
    except Exception as ex:
        res.broken("model driver failed", str(ex)[-600:])
        return
    for (kind, want, payload), m in zip(pend, mo):
        res.case(key=(kind, str(want)[:40], m[:40]), nontrivial=True)
        if kind == "D":
            d = vlib.hex2f(m.split()[0])
            cls = m.split()[1]
            py_d, det = want
            if abs(d - py_d) > 1e-9 * max(1.0, abs(py_d)):
                res.broken("discriminant of the generated stencil differs from the stencil evaluated in the harness", {"model": d, "python": py_d})
            elif (cls == "x") != (det < 0) and abs(det) > 0:
                # the stencil classification disagrees with the analytic Hessian on a non-degenerate point: implementation-level failure
                res.violation("stencil-misclassifies", "the classification stencil gives D=%.4g (%s) where the analytic Hessian determinant is %.4g" % (d, cls, det), payload)
            else:
                res.traces += 1
        elif kind == "n":
            if m.strip() != want:
                res.broken("nullCount model differs", {"model": m, "expected": want})
            else:
                res.traces += 1
        else:
            got = [int(t) for t in m.split()]
            if got != want:
                res.broken("model's %s of the returned list differs from the implementation's order/selection" % kind, {"model": got, "impl": want, "case": payload})
            else:
                res.traces += 1


def replay(rep):
    print("REPLAY: payload", str(rep["payload"])[:500])
    return 1
