"""C18 — psi interpolation reproduces the data; derived fields are its derivatives.
Model GENERATED from Equilibrium.Bzeta…dBdZ, magneticFunctionsFromGrid and TokamakEquilibrium.fpol/fpolprime on every run
(py/gen/gen_fields.py).  Direct oracle: finite differences of each exposed function against the next, node reproduction,
div B = 0, both methods against analytic psi; Float twins of the helper chain on the equilibrium's own point values."""
import contextlib
import io
import math
import os
import sys
import warnings

import numpy as np

import vlib

HELP = ["Bzeta", "B2", "dBzetadR", "dBzetadZ", "dBRdR", "dBRdZ", "dBZdR", "dBZdZ", "dB2dR", "dB2dZ", "dBdR", "dBdZ"]


def pre(res):
    from gen import gen_fields

    try:
        changed = gen_fields.main()
        res.extra["generated"] = {"file": "lean/HypnoModel/Gen/Fields.lean", "changed_since_last_run": bool(changed)}
    except Exception as e:
        res.extra["generated"] = {"error": "%s: %s" % (type(e).__name__, e)}
        res.gen_error = "%s: %s" % (type(e).__name__, e)


def analytic(kind, r):
    """smooth psi(R,Z) with analytic first derivatives"""
    if kind in ("lsn", "cdn", "ldn", "udn", "usn"):
        ex = os.path.join(vlib.REPO, "examples", "tokamak")
        if ex not in sys.path:
            sys.path.insert(0, ex)
        return None
    a, b, c = r.uniform(0.5, 2.0), r.uniform(0.5, 2.0), r.uniform(-0.5, 0.5)
    R0, Z0 = r.uniform(1.2, 1.8), r.uniform(-0.2, 0.2)
    sg = r.choice([-1.0, 1.0])

    def psi(R, Z):
        return sg * (np.exp(-a * (R - R0) ** 2 - b * (Z - Z0) ** 2) + c * np.sin(1.3 * R) * np.cos(0.7 * Z))

    def dR(R, Z):
        return sg * (-2 * a * (R - R0) * np.exp(-a * (R - R0) ** 2 - b * (Z - Z0) ** 2) + 1.3 * c * np.cos(1.3 * R) * np.cos(0.7 * Z))

    def dZ(R, Z):
        return sg * (-2 * b * (Z - Z0) * np.exp(-a * (R - R0) ** 2 - b * (Z - Z0) ** 2) - 0.7 * c * np.sin(1.3 * R) * np.sin(0.7 * Z))

    return psi, dR, dZ


def build_eq(kind, method, r, shape=None, box=None, fpol_kind="linear", psi_sign=1.0, extra=None, nodes=None):
    from hypnotoad import tokamak

    with warnings.catch_warnings(), contextlib.redirect_stdout(io.StringIO()):
        warnings.simplefilter("ignore")
        opts = dict(psi_interpolation_method=method)
        opts.update(extra or {})
        if kind in ("lsn", "cdn", "ldn", "udn", "usn"):
            ex = os.path.join(vlib.REPO, "examples", "tokamak")
            if ex not in sys.path:
                sys.path.insert(0, ex)
            import tokamak_example

            nx, ny = shape or (65, 65)
            r1, z1, p2, p1 = tokamak_example.create_tokamak(geometry=kind, nx=nx, ny=ny)
            p2, p1 = p2 * psi_sign, p1 * psi_sign
            ana = None
        else:
            nx, ny = shape
            (Rlo, Rhi), (Zlo, Zhi) = box
            r1, z1 = np.linspace(Rlo, Rhi, nx), np.linspace(Zlo, Zhi, ny)
            # node coordinates that are only almost equally spaced (written with 5 decimals, passed through float32, or carrying a
            # relative error of 3e-6): the data are sampled at exactly these nodes, so an interpolant must reproduce them there or the
            # constructor must refuse the grid
            if nodes == "round5":
                r1, z1 = np.round(r1, 5), np.round(z1, 5)
            elif nodes == "float32":
                r1, z1 = r1.astype(np.float32).astype(float), z1.astype(np.float32).astype(float)
            elif nodes == "rel3e-6":
                r1 = r1 * (1.0 + 3e-6 * np.sin(np.arange(nx) * 1.7))
                z1 = z1 * (1.0 + 3e-6 * np.cos(np.arange(ny) * 2.3))
                r1[0], r1[-1], z1[0], z1[-1] = Rlo, Rhi, Zlo, Zhi
            psi, dR, dZ = analytic(kind, r)
            R2, Z2 = np.meshgrid(r1, z1, indexing="ij")
            p2 = psi(R2, Z2)
            p1 = np.linspace(p2.max(), p2.min(), nx) if r.random() < 0.5 else np.linspace(p2.min(), p2.max(), nx)
            ana = (psi, dR, dZ)
        t = np.linspace(0, 1, len(p1))
        fpol = {"linear": 2.5 + 0.8 * t, "const": np.full(len(p1), 2.5), "quad": 2.0 + 0.5 * t - 0.9 * t ** 2}[fpol_kind]
        eq = tokamak.TokamakEquilibrium(r1, z1, p2.copy(), p1.copy(), fpol.copy(), make_regions=False, settings=opts)
        # what the interpolant is supposed to reproduce at the nodes: the input after the documented sign / scaling options
        if opts.get("reverse_current"):
            p2 = -p2
        if opts.get("psi_divide_twopi"):
            p2 = p2 / (2 * np.pi)
    return eq, r1, z1, p2, ana


def fd(fun, R, Z, dR=0.0, dZ=0.0):
    return (fun(R + dR, Z + dZ) - fun(R - dR, Z - dZ)) / (2 * (dR + dZ))


def check_eq(res, eq, r1, z1, p2, ana, name, r, npts, lines, pend):
    payload = {"equilibrium": name}
    bad = []
    # node reproduction
    R2, Z2 = np.meshgrid(r1, z1, indexing="ij")
    with np.errstate(all="ignore"):
        err = np.max(np.abs(eq.psi(R2, Z2) - p2))
    scale = max(1e-300, np.max(np.abs(p2)))
    if err > 1e-9 * scale:
        bad.append(("nodes", "interpolated psi differs from the input array at the nodes by %.3g (scale %.3g)" % (err, scale)))
    # interior evaluation points (away from the edge by two cells so that central differences stay inside)
    hR, hZ = (r1[-1] - r1[0]), (z1[-1] - z1[0])
    m = 3.0 / min(len(r1), len(z1))
    Rs = np.array([r.uniform(r1[0] + m * hR, r1[-1] - m * hR) for _ in range(npts)])
    Zs = np.array([r.uniform(z1[0] + m * hZ, z1[-1] - m * hZ) for _ in range(npts)])
    h = 1e-5 * min(hR, hZ)
    psiR = fd(eq.psi, Rs, Zs, dR=h)
    psiZ = fd(eq.psi, Rs, Zs, dZ=h)
    g = np.sqrt(psiR ** 2 + psiZ ** 2)
    gs = max(1e-300, np.max(g))

    def cmp(label, got, want, sc, tol=2e-6):
        """`want` is a central difference with step h, or a function of the step: then the difference between the steps h and h/2
        estimates the truncation error of the reference itself (second order: error(h/2) ~ |fd(h) - fd(h/2)|/3), which is allowed for
        on top of `tol`. (Without it a profile f(psi) with a steep derivative near the axis — fpol linear in the radial index while psi is
        quadratic there — raised a false alarm of 3e-6 in the thorough tier.)"""
        if callable(want):
            w1, w2 = want(h), want(0.5 * h)
            slack = np.abs(w1 - w2)
            want = w2
        else:
            slack = 0.0
        d = np.abs(got - want) - 2.0 * slack
        e = np.max(d) / sc
        if not (e < tol):
            i = int(np.argmax(d))
            bad.append((label, "%s differs from the finite difference of the quantity it should be the derivative of by %.3g (relative), e.g. "
                        "at (R,Z)=(%.6g,%.6g): %r vs %r" % (label, e, Rs[i], Zs[i], float(np.ravel(got)[i]), float(np.ravel(want)[i]))))

    BR, BZ = eq.Bp_R(Rs, Zs), eq.Bp_Z(Rs, Zs)
    cmp("Bp_R", BR, psiZ / Rs, gs)
    cmp("Bp_Z", BZ, -psiR / Rs, gs)
    ok = g > 1e-3 * gs
    fR, fZ = eq.f_R(Rs, Zs), eq.f_Z(Rs, Zs)
    one = fR * psiR + fZ * psiZ
    if np.max(np.abs(one[ok] - 1.0)) > 1e-5:
        bad.append(("f.grad", "f_R dpsi/dR + f_Z dpsi/dZ differs from 1 by %.3g" % np.max(np.abs(one[ok] - 1.0))))
    par = fR * psiZ - fZ * psiR
    if np.max(np.abs(par[ok]) * 1.0) > 1e-5:
        bad.append(("f.parallel", "f is not parallel to grad psi (cross product %.3g)" % np.max(np.abs(par[ok]))))
    # second derivatives against differences of the first-derivative functions
    s2 = max(1e-300, np.max(np.abs(eq.d2psidR2(Rs, Zs))) + np.max(np.abs(eq.d2psidZ2(Rs, Zs))))
    cmp("d2psidR2", eq.d2psidR2(Rs, Zs), lambda hh: fd(lambda a, b: -eq.Bp_Z(a, b) * a, Rs, Zs, dR=hh), s2)
    cmp("d2psidZ2", eq.d2psidZ2(Rs, Zs), lambda hh: fd(lambda a, b: eq.Bp_R(a, b) * a, Rs, Zs, dZ=hh), s2)
    cmp("d2psidRdZ", eq.d2psidRdZ(Rs, Zs), lambda hh: fd(lambda a, b: eq.Bp_R(a, b) * a, Rs, Zs, dR=hh), s2)
    cmp("d2psidRdZ(sym)", eq.d2psidRdZ(Rs, Zs), lambda hh: fd(lambda a, b: -eq.Bp_Z(a, b) * a, Rs, Zs, dZ=hh), s2)
    sB = max(1e-300, np.max(np.abs(eq.dBRdZ(Rs, Zs))) + np.max(np.abs(eq.dBZdR(Rs, Zs))))
    cmp("dBRdR", eq.dBRdR(Rs, Zs), lambda hh: fd(eq.Bp_R, Rs, Zs, dR=hh), sB)
    cmp("dBRdZ", eq.dBRdZ(Rs, Zs), lambda hh: fd(eq.Bp_R, Rs, Zs, dZ=hh), sB)
    cmp("dBZdR", eq.dBZdR(Rs, Zs), lambda hh: fd(eq.Bp_Z, Rs, Zs, dR=hh), sB)
    cmp("dBZdZ", eq.dBZdZ(Rs, Zs), lambda hh: fd(eq.Bp_Z, Rs, Zs, dZ=hh), sB)
    # div B = 0
    div = fd(lambda a, b: a * eq.Bp_R(a, b), Rs, Zs, dR=h) / Rs + fd(eq.Bp_Z, Rs, Zs, dZ=h)
    if np.max(np.abs(div)) > 2e-6 * sB:
        bad.append(("divB", "div B = %.3g (scale %.3g)" % (np.max(np.abs(div)), sB)))
    # toroidal field and |B|
    psis = eq.psi(Rs, Zs)
    hp = 1e-6 * max(1e-300, np.ptp(p2))
    fp_fd = (eq.fpol(psis + hp) - eq.fpol(psis - hp)) / (2 * hp)
    sfp = max(1e-12, np.max(np.abs(fp_fd)))
    e = np.max(np.abs(eq.fpolprime(psis) - fp_fd)) / sfp
    if e > 1e-4 and np.max(np.abs(fp_fd)) > 1e-9:
        i = int(np.argmax(np.abs(eq.fpolprime(psis) - fp_fd)))
        bad.append(("fpolprime", "fpolprime differs from the finite difference of fpol by %.3g (relative): %r vs %r at psi=%r" % (
            e, float(eq.fpolprime(psis)[i]), float(fp_fd[i]), float(psis[i]))))
    sZ = max(1e-300, np.max(np.abs(fd(eq.Bzeta, Rs, Zs, dR=h))) + np.max(np.abs(fd(eq.Bzeta, Rs, Zs, dZ=h))))
    cmp("dBzetadR", eq.dBzetadR(Rs, Zs), lambda hh: fd(eq.Bzeta, Rs, Zs, dR=hh), sZ)
    cmp("dBzetadZ", eq.dBzetadZ(Rs, Zs), lambda hh: fd(eq.Bzeta, Rs, Zs, dZ=hh), sZ)
    s22 = max(1e-300, np.max(np.abs(fd(eq.B2, Rs, Zs, dR=h))) + np.max(np.abs(fd(eq.B2, Rs, Zs, dZ=h))))
    cmp("dB2dR", eq.dB2dR(Rs, Zs), lambda hh: fd(eq.B2, Rs, Zs, dR=hh), s22)
    cmp("dB2dZ", eq.dB2dZ(Rs, Zs), lambda hh: fd(eq.B2, Rs, Zs, dZ=hh), s22)
    Bf = lambda a, b: np.sqrt(eq.B2(a, b))  # noqa
    sBB = max(1e-300, np.max(np.abs(fd(Bf, Rs, Zs, dR=h))) + np.max(np.abs(fd(Bf, Rs, Zs, dZ=h))))
    cmp("dBdR", eq.dBdR(Rs, Zs), lambda hh: fd(Bf, Rs, Zs, dR=hh), sBB)
    cmp("dBdZ", eq.dBdZ(Rs, Zs), lambda hh: fd(Bf, Rs, Zs, dZ=hh), sBB)
    # argument kinds: scalar, array, MultiLocationArray give the same numbers
    from hypnotoad.core.multilocationarray import MultiLocationArray

    Rm, Zm = MultiLocationArray(2, 2), MultiLocationArray(2, 2)
    for loc, off in (("centre", 0), ("xlow", 1), ("ylow", 2), ("corners", 3)):
        sh = getattr(Rm, loc).shape
        getattr(Rm, loc)[...] = Rs[off: off + sh[0] * sh[1]].reshape(sh)
        getattr(Zm, loc)[...] = Zs[off: off + sh[0] * sh[1]].reshape(sh)
    for nm in ("psi", "f_R", "Bp_R", "Bp_Z", "d2psidRdZ", "fpol"):
        try:
            if nm == "fpol":
                pm = eq.psi(Rm, Zm)
                out = eq.fpol(pm)
                ref = eq.fpol(pm.centre)
            else:
                out = getattr(eq, nm)(Rm, Zm)
                ref = getattr(eq, nm)(Rm.centre, Zm.centre)
            sc = float(getattr(eq, nm)(float(Rs[0]), float(Zs[0]))) if nm != "fpol" else float(eq.fpol(float(psis[0])))
            ar = float(np.ravel(getattr(eq, nm)(Rs[:1], Zs[:1]))[0]) if nm != "fpol" else float(np.ravel(eq.fpol(psis[:1]))[0])
            if not np.allclose(out.centre, ref, rtol=1e-13, atol=0) or abs(sc - ar) > 1e-13 * max(1.0, abs(ar)):
                bad.append(("argkinds:" + nm, "%s gives different values for scalar / array / MultiLocationArray arguments" % nm))
        except Exception as ex:
            bad.append(("argkinds:" + nm, "%s fails for a MultiLocationArray/scalar argument: %s" % (nm, ex)))
    # analytic psi: both methods within their interpolation error
    if ana is not None:
        psi, dR, dZ = ana
        spacing = max(r1[1] - r1[0], z1[1] - z1[0])
        e0 = np.max(np.abs(eq.psi(Rs, Zs) - psi(Rs, Zs))) / scale
        e1 = np.max(np.abs(BR * Rs - dZ(Rs, Zs))) / gs
        res.extra.setdefault("interp_error", {})[name] = {"psi": float(e0), "grad": float(e1), "spacing": float(spacing)}
        # spline: third / second order. dct: the cosine series is that of the even extension of the data, whose normal derivative jumps at
        # the box edge, so near the edge the gradient is only first-order accurate (50 h^2 was exceeded by 1.5 % on a random box of the thorough
        # tier: my bound, not the code)
        dct_ = "/dct/" in name
        if e0 > 50 * spacing ** 3 + 1e-9 or e1 > (5 * spacing if dct_ else 50 * spacing ** 2) + 1e-8:
            bad.append(("analytic", "interpolant differs from the analytic function by %.3g (psi) / %.3g (gradient) at grid spacing %.3g" % (e0, e1, spacing)))
    for wid, msg in bad:
        res.violation(wid, msg + " [" + name + "]", payload)
    # Float twins of the helper chain on the equilibrium's own point values
    if not res.gen_error:
        hx = vlib.f2hex
        pts = list(zip(Rs[:25], Zs[:25]))
        for (a, b) in pts:
            vals = [a, b, float(eq.Bp_R(a, b)), float(eq.Bp_Z(a, b)), float(eq.fpol(eq.psi(a, b))), float(eq.fpolprime(eq.psi(a, b))),
                    float(eq.d2psidR2(a, b)), float(eq.d2psidZ2(a, b)), float(eq.d2psidRdZ(a, b))]
            lines.append("c18h " + " ".join(hx(v) for v in vals))
            pend.append((name, a, b, [float(getattr(eq, hname)(a, b)) for hname in HELP]))
    return not bad


def inplace_arguments(res):
    """the field functions depend on the *values* of their arguments: evaluate at arrays, shift the same array objects in place (as a finite
    difference loop re-using a work array does), evaluate again and compare with an evaluation at fresh copies"""
    r = vlib.rng("c18-inplace")
    for method in ("spline", "dct"):
        try:
            eq, r1, z1, p2, ana = build_eq("lsn", method, r, fpol_kind="quad")
        except Exception as e:
            res.extra.setdefault("refused", []).append(["inplace/" + method, str(e)[:200]])
            continue
        R = np.array([1.31, 1.42, 1.55, 1.63])
        Z = np.array([-0.11, 0.07, 0.18, -0.21])
        for nm in ("psi", "Bp_R", "Bp_Z", "Bzeta", "B2", "dBzetadR", "dBzetadZ", "dB2dR", "dB2dZ", "dBdR", "dBdZ", "f_R", "f_Z", "d2psidR2", "d2psidZ2", "d2psidRdZ"):
            fn = getattr(eq, nm, None)
            if fn is None:
                continue
            res.case(key=("inplace", method, nm), nontrivial=True)
            Rw, Zw = R.copy(), Z.copy()
            with np.errstate(all="ignore"):
                first = np.array(fn(Rw, Zw), dtype=float)
                first_copy = first.copy()
                Rw += 0.013
                Zw -= 0.021
                second = np.array(fn(Rw, Zw), dtype=float)
                fresh = np.array(fn(Rw.copy(), Zw.copy()), dtype=float)
                again = np.array(fn(R.copy(), Z.copy()), dtype=float)
            sc = max(1e-300, float(np.max(np.abs(fresh))))
            if not np.allclose(second, fresh, rtol=1e-12, atol=1e-12 * sc) or not np.allclose(again, first_copy, rtol=1e-12, atol=1e-12 * sc):
                res.violation("stale-after-inplace-change:" + nm, "%s/%s: after the argument arrays were changed in place the function returns %s, at fresh copies of the "
                              "same values it returns %s" % (method, nm, second[:2], fresh[:2]), {"method": method, "function": nm})
                break
        else:
            res.traces += 1


def shared_arrays(res):
    """the two interpolation methods built one after the other from the SAME input arrays (as a user comparing them does), with the options that
    convert the input (reverse_current, psi_divide_twopi, reverse_Bt): each must reproduce the converted input at the nodes and they must agree"""
    from hypnotoad import tokamak

    ex = os.path.join(vlib.REPO, "examples", "tokamak")
    if ex not in sys.path:
        sys.path.insert(0, ex)
    import tokamak_example

    for opts in ({"reverse_current": True}, {"psi_divide_twopi": True}, {"reverse_Bt": True, "reverse_current": True, "psi_divide_twopi": True}):
        r1, z1, p2, p1 = tokamak_example.create_tokamak(geometry="lsn")
        fpol = 2.5 + 0.8 * np.linspace(0, 1, len(p1))
        want = p2.copy()
        if opts.get("reverse_current"):
            want = -want
        if opts.get("psi_divide_twopi"):
            want = want / (2 * np.pi)
        wantf = -fpol.copy() if opts.get("reverse_Bt") else fpol.copy()
        R2, Z2 = np.meshgrid(r1, z1, indexing="ij")
        vals = {}
        for method in ("spline", "dct"):
            name = "shared-arrays/%s/%s" % (method, ",".join(sorted(opts)))
            res.case(key=name, nontrivial=True, sample={"equilibrium": name})
            try:
                with warnings.catch_warnings(), contextlib.redirect_stdout(io.StringIO()):
                    warnings.simplefilter("ignore")
                    eq = tokamak.TokamakEquilibrium(r1, z1, p2, p1, fpol, make_regions=False, settings=dict(opts, psi_interpolation_method=method))
            except Exception as e:  # explicit refusal
                res.extra.setdefault("refused", []).append([name, str(e)[:200]])
                continue
            with np.errstate(all="ignore"):
                err = float(np.max(np.abs(eq.psi(R2, Z2) - want)))
                ferr = float(np.max(np.abs(eq.fpol(np.array(want[:, len(z1) // 2])) * 0 + 0))) if False else 0.0
            vals[method] = eq.psi(R2, Z2)
            if err > 1e-9 * float(np.max(np.abs(want))):
                res.violation("nodes-shared-arrays", "%s: built as the %s equilibrium from the same input arrays, the interpolated psi differs from the (converted) "
                              "input array at the nodes by %.3g (scale %.3g)" % (name, "second" if method == "dct" else "first", err, float(np.max(np.abs(want)))),
                              {"options": opts, "method": method})
            else:
                res.traces += 1
        if len(vals) == 2 and float(np.max(np.abs(vals["spline"] - vals["dct"]))) > 1e-9 * float(np.max(np.abs(want))):
            res.violation("methods-disagree-shared-arrays", "%s: the two methods built from the same arrays disagree at the nodes by %.3g" % (
                ",".join(sorted(opts)), float(np.max(np.abs(vals["spline"] - vals["dct"])))), {"options": opts})


def run(res, tier):
    r = vlib.rng("c18")
    res.rule = ("equilibria: shipped analytic families (lsn, cdn, ldn; psi of either sign) and random smooth analytic psi on grids of several "
                "sizes/aspects (incl. boxes with max(Z) > max(R)), both interpolation methods, fpol linear/quadratic; at random interior points: "
                "node reproduction, central differences of psi vs Bp_R/Bp_Z/f_R/f_Z, of Bp vs second derivatives and dB*d*, of Bzeta/B2/|B| vs "
                "their derivative functions, fpolprime vs differences of fpol, div B, scalar/array/MultiLocationArray arguments, agreement with "
                "the analytic function; helper chain vs Float twins of the GENERATED definitions. distinct by (equilibrium, method, grid)")
    res.trusted += ["scipy RectBivariateSpline / fftpack.dct are parameters of the model (their derivative methods are validated only by the finite differences here)"]
    cases = []
    for method in ("spline", "dct"):
        cases.append(("lsn", method, dict(fpol_kind="linear")))
        cases.append(("ldn", method, dict(fpol_kind="quad")))
        cases.append(("cdn", method, dict(fpol_kind="linear", psi_sign=-1.0)))
        # the sign / scaling options act on the arrays before the interpolants are built: everything must stay mutually consistent
        cases.append(("lsn", method, dict(fpol_kind="quad", extra={"reverse_Bt": True})))
        cases.append(("ldn", method, dict(fpol_kind="linear", extra={"reverse_current": True, "psi_divide_twopi": True})))
        cases.append(("ana", method, dict(shape=(41, 57), box=((1.0, 2.0), (-1.0, 1.0)))))
        cases.append(("ana", method, dict(shape=(33, 97), box=((0.2, 1.0), (-2.0, 2.0)))))      # tall box: max(Z) > max(R)
        cases.append(("ana", method, dict(shape=(64, 40), box=((1.0, 3.0), (0.5, 2.5)))))        # shifted upwards
        for nodes in ("round5", "float32", "rel3e-6"):
            cases.append(("ana", method, dict(shape=(47, 40), box=((1.0, 3.0), (0.5, 2.5)), nodes=nodes)))
        if tier == "thorough":
            cases.append(("usn", method, dict(fpol_kind="const")))
            cases.append(("udn", method, dict(fpol_kind="quad")))
            for _ in range(6):
                nx, ny = r.randint(24, 90), r.randint(24, 90)
                Rlo = r.uniform(0.2, 1.5)
                Zlo = r.uniform(-2, 0.5)
                cases.append(("ana", method, dict(shape=(nx, ny), box=((Rlo, Rlo + r.uniform(0.7, 2.0)), (Zlo, Zlo + r.uniform(0.7, 3.0))))))
    lines, pend = [], []
    npts = 120 if tier == "quick" else 800
    for kind, method, kw in cases:
        name = "%s/%s/%s" % (kind, method, ",".join("%s=%s" % kv for kv in sorted(kw.items())))
        try:
            eq, r1, z1, p2, ana = build_eq(kind, method, r, **kw)
        except Exception as ex:
            res.case(key=("refused", name, type(ex).__name__), nontrivial=False)
            res.extra.setdefault("refused", []).append([name, str(ex)[:200]])
            continue
        res.case(key=name, nontrivial=True, sample={"equilibrium": name, "grid": [len(r1), len(z1)]})
        if check_eq(res, eq, r1, z1, p2, ana, name, r, npts, lines, pend):
            res.traces += 1
    shared_arrays(res)
    inplace_arguments(res)
    if res.gen_error:
        res.broken("translator could not regenerate the model (fail-closed)", res.gen_error)
        return
    try:
        mo = vlib.lean_driver(lines) if lines else []
    except Exception as ex:
        res.broken("generated model does not build / run", str(ex)[-800:])
        return
    worst = 0.0
    for (name, a, b, want), m in zip(pend, mo):
        got = [vlib.hex2f(t) for t in m.split()]
        res.case(key=("pt", name, a, b), nontrivial=True)
        e = max(abs(x - y) / max(1e-300, abs(x), abs(y)) if (x or y) else 0.0 for x, y in zip(got, want))
        worst = max(worst, e)
        if e > 1e-10:
            res.broken("helper chain differs from the Float twin of the generated definitions",
                       {"equilibrium": name, "R": a, "Z": b, "python": want, "lean": got})
        else:
            res.traces += 1
    res.extra["max_rel_diff_helpers_vs_generated"] = worst


def replay(rep):
    print("REPLAY: re-run `py/check.py C18`; the payload names the equilibrium: %s" % rep["payload"])
    return 1
