"""Child process of the C13 harness: the project's own mapped task (PsiContour.refine over a list of contours, as MeshRegion does)
run serially and through ParallelMap with worker processes, with a contour whose psi value cannot be reached at a chosen position.
One JSON line per run. Run as  python c13_project.py ; killed by the parent on a hang."""
import contextlib
import io
import json
import os
import sys
import warnings

sys.path.insert(0, os.path.dirname(os.path.dirname(os.path.abspath(__file__))))
import vlib  # noqa: E402

vlib.use_repo()
from hypnotoad.utils.parallel_map import ParallelMap  # noqa: E402
from hypnotoad.core.equilibrium import PsiContour, Point2D, SolutionError  # noqa: E402


def toy_psi(R, Z):
    return R * R + Z * Z


class Eq:
    psi = staticmethod(toy_psi)
    f_R = None
    f_Z = None


def contours(n, bad):
    import numpy as np

    out = []
    for k in range(n):
        r = 1.0 + 0.1 * k
        th = np.linspace(0.2, 1.2, 5)
        pts = [Point2D(float((r + 1e-4) * np.cos(t)), float((r + 1e-4) * np.sin(t))) for t in th]
        with warnings.catch_warnings(), contextlib.redirect_stdout(io.StringIO()):
            warnings.simplefilter("ignore")
            c = PsiContour(points=pts, psival=(-1.0 if k == bad else r * r), settings={"refine_methods": "line", "refine_width": 0.05},
                           Rrange=(0.0, 3.0), Zrange=(0.0, 3.0))
        out.append(c)
    return out


def outcome(pm, n, bad):
    try:
        with contextlib.redirect_stdout(io.StringIO()):
            res = pm(PsiContour.refine, ((c,) for c in contours(n, bad)), width=0.05)
        return {"kind": "ok", "value": [[(p.R.hex(), p.Z.hex()) for p in c] for c in res]}
    except BaseException as e:  # noqa
        return {"kind": "exc", "type": type(e).__name__, "is_solution_error": isinstance(e, SolutionError), "msg": str(e)[:200]}


def main():
    for np_ in (1, 2, 3):
        pm = ParallelMap(np_, equilibrium=Eq())
        for n, bad in ((4, None), (4, 0), (4, 2), (4, 3), (4, None)):     # the last healthy call follows failures on the same workers
            print("RUN " + json.dumps({"np": np_, "n": n, "bad": bad, "out": outcome(pm, n, bad)}), flush=True)
        if pm.workers is not None:
            for w in pm.workers:
                w.terminate()
    print("END", flush=True)
    sys.stdout.flush()
    os._exit(0)


if __name__ == "__main__":
    main()
