"""C08 — block topology, branch-cut indices, global index map.
Stub-geometry runs of the real index/topology layer (c08_stub.py) for many size vectors; direct oracle = the
documented BOUT++ meaning of the integers against the adjacency of the connection table; correspondence with
lean/HypnoModel/Model/Topology.lean (encode, decodeNext, connection tables) and Tiling.lean."""
import math

import numpy as np

import vlib
from props import c08_stub
from props.c01 import pre as _pre_pipeline  # (Gen/Pipeline.lean: getRZBoundary guard and copies)


def pre(res):
    _pre_pipeline(res)
    from gen import gen_xind

    try:
        changed = gen_xind.main()
        res.extra.setdefault("generated", {})["xind"] = {"file": "lean/HypnoModel/Gen/XInd.lean", "changed_since_last_run": bool(changed)}
    except Exception as e:  # fail closed
        res.extra.setdefault("generated", {})["xind_error"] = "%s: %s" % (type(e).__name__, e)
        res.gen_error = "%s: %s" % (type(e).__name__, e)


def decode_next(t, x, j):
    """documented BOUT++ meaning (doc/grid-file.rst + BOUT++ manual); independent re-statement in Python"""
    dn = t["jyseps2_1"] != t["jyseps1_2"]
    if x < t["ixseps1"] and j == t["jyseps1_1"]:
        return t["jyseps2_2"] + 1
    if x < t["ixseps1"] and j == t["jyseps2_2"]:
        return t["jyseps1_1"] + 1
    if dn and x < t["ixseps2"] and j == t["jyseps2_1"]:
        return t["jyseps1_2"] + 1
    if dn and x < t["ixseps2"] and j == t["jyseps1_2"]:
        return t["jyseps2_1"] + 1
    if j == t["ny"] - 1 or (dn and j == t["ny_inner"] - 1):
        return None
    return j + 1


def region_layout(out):
    """per y-region: array range (with guards), BOUT range (without), guard counts at either end"""
    order = out["region_order"]
    nseg = len(out["nx_segments"])
    lay = []
    jb = 0
    for k, name in enumerate(order):
        r = out["regions"][k * nseg]
        y0, y1 = r["y"]
        nyng = r["ny_noguards"]
        ng = (y1 - y0) - nyng
        kind = r["kind"]
        glo = ng if kind.startswith("wall") and not kind.endswith("wall") else 0
        ghi = ng if kind.endswith("wall") and not kind.startswith("wall") else 0
        if kind == "wall.wall":
            glo = ghi = ng // 2
        lay.append({"name": name, "a0": y0, "a1": y1, "b0": jb, "b1": jb + nyng, "glo": glo, "ghi": ghi, "kind": kind})
        jb += nyng
    return lay


def oracle(out, res, case):
    """all direct checks of the property on one stub run; returns list of (witness-id, message)"""
    bad = []
    t = out["ints"]
    regs = out["regions"]
    nseg = len(out["nx_segments"])
    nx = t["nx"]
    lay = region_layout(out)
    nyb = t["ny"]
    g = t["y_boundary_guards"]
    topo = case["kind"]
    # --- tiling: slices partition the rectangle; the region-id map from the written file agrees
    cover = np.zeros((nx, out["mesh_ny"]), dtype=int)
    idmap = np.full((nx, out["mesh_ny"]), -1)
    for rid, r in regs.items():
        cover[r["x"][0]: r["x"][1], r["y"][0]: r["y"][1]] += 1
        idmap[r["x"][0]: r["x"][1], r["y"][0]: r["y"][1]] = rid
    if not (cover == 1).all():
        bad.append(("tiling", "region index ranges do not tile the nx-by-ny rectangle exactly once"))
    filemap = out["vars"]["Rxy"]
    if filemap.shape != idmap.shape or not (filemap == idmap).all():
        bad.append(("tiling-file", "region-id map assembled in the written file differs from region_indices"))
    # --- connections symmetric, equal edge sizes
    for rid, r in regs.items():
        for a, b in (("upper", "lower"), ("outer", "inner")):
            n = r["connections"][a]
            if n is None:
                continue
            if regs[n]["connections"][b] != rid:
                bad.append(("conn-symmetry", "connection %s of region %d is not mirrored" % (a, rid)))
            if a == "upper" and regs[n]["nx"] != r["nx"]:
                bad.append(("conn-size", "y-connected regions %d,%d have different nx" % (rid, n)))
            if a == "outer" and regs[n]["ny"] != r["ny"]:
                bad.append(("conn-size", "x-connected regions %d,%d have different ny" % (rid, n)))
    # --- index ordering
    j11, j21, j12, j22, nyi = t["jyseps1_1"], t["jyseps2_1"], t["jyseps1_2"], t["jyseps2_2"], t["ny_inner"]
    nreg = len(lay)
    if nreg == 3 and not (-1 <= j11 < j21 == j12 <= j22 < nyb - 1 + 0):
        bad.append(("order-sn", "single-null indices not ordered: %s" % t))
    if nreg == 6 and not (-1 < j11 + 1 and j11 < j21 < nyi <= j12 + 0 and nyi - 1 < j12 < j22 < nyb - 1):
        bad.append(("order-dn", "double-null indices not ordered: %s" % t))
    if nreg == 1 and not (j11 == -1 and j22 <= nyb - 1):
        bad.append(("order-core", "core-only indices out of range: jyseps2_2=%d, ny=%d" % (j22, nyb)))
    # --- decode == adjacency of the connection table, every x and BOUT j
    nxs = np.cumsum([0] + out["nx_segments"])
    mism = None
    for x in range(nx):
        seg = int(np.searchsorted(nxs, x, side="right") - 1)
        for k, L in enumerate(lay):
            rid = k * nseg + seg
            for j in range(L["b0"], L["b1"]):
                if j + 1 < L["b1"]:
                    want = j + 1
                else:
                    up = regs[rid]["connections"]["upper"]
                    want = None if up is None else lay[up // nseg]["b0"]
                got = decode_next(t, x, j)
                if got != want and mism is None:
                    mism = (x, j, got, want)
    if mism:
        bad.append(("decode:" + topo, "documented meaning of the indices gives cell (x=%d, j=%d) -> %s, region structure gives %s; ints %s" % (
            mism + (t,))))
    # --- y-coord / theta / chi
    v = out["vars"]
    dy = 2 * math.pi / max(1, sum(L["b1"] - L["b0"] for L in lay if L["kind"] == "X.X")) if any(
        L["kind"] == "X.X" for L in lay) else 2 * math.pi / nyb
    ycoord = v["y-coord"][0, :]
    if not np.allclose(ycoord, dy * np.arange(len(ycoord)), rtol=0, atol=1e-9):
        bad.append(("y-coord", "y-coord is not the cumulative dy from the start of the grid"))
    core = [L for L in lay if L["kind"] == "X.X"]
    if core:
        th = v["theta"][0, :]
        # walk the core cells in poloidal order: theta at centres = (k + 1/2) dy
        k = 0
        ok = True
        for L in core:
            for a in range(L["a0"], L["a1"]):
                if abs(th[a] - (k + 0.5) * dy) > 1e-9:
                    ok = False
                k += 1
        if not ok:
            bad.append(("theta:g%d" % min(g, 1), "theta does not run from 0 to 2*pi round the core cells"))
        chi = v["chi"]
        want_nan = np.ones(out["mesh_ny"], dtype=bool)
        for L in core:
            want_nan[L["a0"]: L["a1"]] = False
        got_nan = np.isnan(chi).all(axis=0)
        any_nan = np.isnan(chi).any(axis=0)
        if not ((got_nan == want_nan).all() and (any_nan == want_nan).all()):
            bad.append(("chi-nan:g%d" % min(g, 1), "chi NaN mask is not exactly the divertor-leg cells: NaN columns %s, leg columns %s" % (
                np.nonzero(any_nan)[0].tolist(), np.nonzero(want_nan)[0].tolist())))
    return bad


def gen_case(r, kind=None, tier="quick"):
    kind = kind or r.choice(["lsn", "usn", "cdn", "ldn", "udn", "circular", "lsn", "ldn", "udn", "cdn"])
    if kind == "circular":
        o = {"nx": r.randint(1, 7), "ny": r.choice([1, 2, 3, 4, 5, 8, 16, r.randint(1, 40)])}
        if r.random() < 0.3:
            o["y_boundary_guards"] = r.choice([0, 1, 2])
        return {"kind": kind, "options": o}

    def leg():
        return r.choice([1, 2, 3, 4, 5, 7, 20, r.randint(1, 30)])

    o = dict(orthogonal=True, psinorm_core=0.9, psinorm_sol=1.1, nx_core=r.randint(1, 5), nx_sol=r.randint(1, 5),
             y_boundary_guards=r.choice([0, 0, 1, 2, 3]))
    if kind in ("ldn", "udn"):
        o.update(nx_inter_sep=r.randint(1, 3), psinorm_sol=1.2)
    o["ny_inner_divertor"] = leg()
    o["ny_outer_divertor"] = leg()
    if kind in ("cdn", "ldn", "udn"):
        if r.random() < 0.7:
            o["ny_inner_upper_divertor"] = leg()
            o["ny_outer_upper_divertor"] = leg()
            o["ny_inner_lower_divertor"] = leg()
            o["ny_outer_lower_divertor"] = leg()
        o["ny_inner_sol"] = r.choice([1, 2, 3, 4, 9, r.randint(1, 20)])
        o["ny_outer_sol"] = r.choice([1, 2, 3, 4, 9, r.randint(1, 20)])
        if r.random() < 0.2:
            o["start_at_upper_outer"] = True
    else:
        o["ny_sol"] = r.choice([1, 2, 3, 4, 8, r.randint(1, 30)])
    return {"kind": kind, "options": o}


CORPUS = [
    # single null with strongly unequal legs (the pre-fix witness: sizes [3,4,20], no guards)
    {"kind": "lsn", "options": dict(orthogonal=True, psinorm_core=0.9, psinorm_sol=1.1, nx_core=2, nx_sol=2, y_boundary_guards=0,
                                    ny_inner_divertor=3, ny_outer_divertor=20, ny_sol=4)},
    {"kind": "lsn", "options": dict(orthogonal=True, psinorm_core=0.9, psinorm_sol=1.1, nx_core=2, nx_sol=2, y_boundary_guards=1,
                                    ny_inner_divertor=3, ny_outer_divertor=4, ny_sol=8)},
    {"kind": "usn", "options": dict(orthogonal=True, psinorm_core=0.9, psinorm_sol=1.1, nx_core=1, nx_sol=3, y_boundary_guards=2,
                                    ny_inner_divertor=25, ny_outer_divertor=2, ny_sol=3)},
    {"kind": "circular", "options": {"nx": 4, "ny": 16}},
    {"kind": "cdn", "options": dict(orthogonal=True, psinorm_core=0.9, psinorm_sol=1.1, nx_core=2, nx_sol=2, y_boundary_guards=1,
                                    ny_inner_divertor=3, ny_outer_divertor=4, ny_inner_sol=4, ny_outer_sol=4,
                                    ny_inner_upper_divertor=2, ny_outer_upper_divertor=5)},
    {"kind": "ldn", "options": dict(orthogonal=True, psinorm_core=0.9, psinorm_sol=1.2, nx_core=2, nx_sol=3, nx_inter_sep=1,
                                    y_boundary_guards=1, ny_inner_divertor=3, ny_outer_divertor=4, ny_inner_sol=4, ny_outer_sol=4)},
    {"kind": "udn", "options": dict(orthogonal=True, psinorm_core=0.9, psinorm_sol=1.2, nx_core=2, nx_sol=3, nx_inter_sep=2,
                                    y_boundary_guards=0, ny_inner_divertor=3, ny_outer_divertor=4, ny_inner_sol=4, ny_outer_sol=5)},
]


def lean_kind(case, out):
    n = len(out["region_order"])
    if n == 1:
        return "core"
    if n == 3:
        return "sn"
    if n == 6:
        return {"lower": "ldn", "upper": "udn", "connected": "cdn"}.get(out["double_null_type"], "cdn")
    return None


def run(res, tier):
    r = vlib.rng("c08")
    res.rule = ("stub-geometry runs of the real describe*/createRegionObjects/makeConnection/Mesh/BoutMesh/addFromRegions/writeGridfile "
                "code for random size vectors (per-leg ny 1..30 strongly unequal, core ny 1..30, nx per segment 1..5, guards 0..3, "
                "start_at_upper_outer) over lsn/usn/cdn/ldn/udn/circular; oracle: tiling through the written file, symmetric connections, "
                "index ordering, decode(documented meaning)=adjacency for every (x,j), y-coord/theta/chi; the Lean encode/decodeNext/"
                "connection tables are compared exactly. non-trivial = at least one X-point or periodic core; distinct by "
                "(topology, size vector, guards)")
    res.trusted += ["BOUT++'s reading of ixseps/jyseps/ny_inner is transcribed from doc/grid-file.rst and the BOUT++ manual (BOUT++ is not in the sandbox)",
                    "stub regions replace MeshRegion geometry only; the index/topology layer that runs is the real one"]
    n = 150 if tier == "quick" else 4000
    cases = list(CORPUS) + [gen_case(r, tier=tier) for _ in range(n)]
    lines, pend = [], []
    tables_checked = set()
    for case in cases:
        out = c08_stub.run_stub(case["kind"], case["options"])
        key = (case["kind"], tuple(sorted(case["options"].items())))
        if out["error"]:
            res.case(key=("refused", out["error"][0]), nontrivial=False)
            continue
        res.case(key=key, nontrivial=True, sample={"kind": case["kind"], "ints": out["ints"], "ny_regions": out["ny_regions_noguards"],
                                                   "nx_segments": out["nx_segments"]})
        for wid, msg in oracle(out, res, case):
            if case["options"].get("start_at_upper_outer"):
                wid += ":start_at_upper_outer"
            res.violation(wid, msg, case)
        # correspondence with the Lean model
        lk = lean_kind(case, out)
        if lk is None or case["options"].get("start_at_upper_outer"):
            continue
        nseg = len(out["nx_segments"])
        dn = {"ldn": "lower", "udn": "upper", "cdn": "connected"}.get(lk, "none")
        sep = 1
        lines.append("c08 %s %d %d %s %s" % (dn, sep, out["mesh_ny"], ",".join(map(str, out["nx_segments"])),
                                             ",".join(map(str, out["ny_regions_noguards"]))))
        pend.append(("enc", case, out))
        lines.append("c08t " + ",".join(str(out["regions"][k * nseg]["y"][1] - out["regions"][k * nseg]["y"][0]) for k in range(len(out["region_order"]))))
        pend.append(("til", case, out))
        # X-point slots: the X-point stored for an end of a region is the one that end touches, and it lies on the radial boundary
        # it is stored at
        for row in out.get("xslots", []):
            for end in ("start", "end"):
                for b, e in enumerate(row[end]):
                    if e is None:
                        continue
                    which, dpsi, near = e
                    if which != near or which < 0:
                        res.violation("xpoint-slot-wrong-xpoint", "%s: xPointsAt%s[%d] of region %s is X-point %d of equilibrium.x_points but that end of the region "
                                      "is at X-point %d" % (case["kind"], end.capitalize(), b, row["name"], which, near), case)
                    elif abs(dpsi) > 1e-9:
                        res.violation("xpoint-slot-wrong-boundary", "%s: xPointsAt%s[%d] of region %s holds an X-point whose psi differs by %.3g from the psi of "
                                      "radial boundary %d" % (case["kind"], end.capitalize(), b, row["name"], dpsi, b), case)
        if (lk, "xslots") not in tables_checked and out.get("xslots") is not None:
            tables_checked.add((lk, "xslots"))
            lines.append("c08x %s %d" % (lk, len(out["region_order"])))
            pend.append(("xsl", case, out))
        if (lk, nseg) not in tables_checked:
            tables_checked.add((lk, nseg))
            lines.append("c08u %s %d %d" % (lk, len(out["region_order"]), nseg))
            pend.append(("tab", case, out))
    mo = vlib.lean_driver(lines) if lines else []
    for (what, case, out), m in zip(pend, mo):
        t = out["ints"]
        nseg = len(out["nx_segments"])
        if what == "enc":
            f = m.split()
            if f[0] != "ints":
                res.broken("model has no encoding for a configuration the code accepts", {"case": case, "model": m[:100]})
                continue
            mi = list(map(int, f[1:8]))
            ri = [t[k] for k in ["ixseps1", "ixseps2", "jyseps1_1", "jyseps2_1", "ny_inner", "jyseps1_2", "jyseps2_2"]]
            if mi != ri:
                res.broken("topology integers differ from the model", {"case": case, "impl": ri, "model": mi})
                continue
            nxt = list(map(int, f[9:]))
            nyb = t["ny"]
            okk = True
            for x in range(t["nx"]):
                for j in range(nyb):
                    d = decode_next(t, x, j)
                    if (d if d is not None else -9) != nxt[x * nyb + j]:
                        okk = False
            if not okk:
                res.broken("Lean decodeNext differs from the harness's decode", {"case": case})
            else:
                res.traces += 1
        elif what == "til":
            ms = [tuple(map(int, s.split(":"))) for s in m.split()]
            rs = [tuple(out["regions"][k * nseg]["y"]) for k in range(len(out["region_order"]))]
            if ms != rs:
                res.broken("y slices differ from the model's cumulative-sum slices", {"case": case, "impl": rs, "model": ms})
            else:
                res.traces += 1
        elif what == "xsl":
            def sh(lst):
                e = [(b, x[0]) for b, x in enumerate(lst) if x is not None]
                return "-" if not e else ",".join("%d,%d" % t for t in e)
            rt = " ".join("s:%s e:%s" % (sh(row["start"]), sh(row["end"])) for row in out["xslots"])
            if rt != m.strip():
                res.broken("X-point slot table differs from the model's table", {"case": case["kind"], "impl": rt, "model": m.strip()})
            else:
                res.traces += 1
        else:
            mt = list(map(int, m.split()))
            rt = []
            for k in range(len(out["region_order"])):
                for s in range(nseg):
                    up = out["regions"][k * nseg + s]["connections"]["upper"]
                    rt.append(-1 if up is None else up // nseg)
                    if up is not None and up % nseg != s:
                        res.violation("conn-segment", "upper connection changes radial segment", case)
            if mt != rt:
                res.broken("connection table differs from the model's table", {"case": case["kind"], "impl": rt, "model": mt})
            else:
                res.traces += 1
    real_grid_corners(res, tier)


def y_adjacent_corner_mismatch(v):
    """largest distance between the upper corners of a cell and the lower corners of the cell that the topology integers name as its poloidal
    successor: (left corners, right corners, where)"""
    t = {k: int(v[k]) for k in ["nx", "ny", "ixseps1", "ixseps2", "jyseps1_1", "jyseps2_1", "ny_inner", "jyseps1_2", "jyseps2_2"]}
    myg = int(v["y_boundary_guards"])
    dn = t["jyseps2_1"] != t["jyseps1_2"]

    def arr(j):
        if t["jyseps1_1"] < 0 and not dn and t["ny"] == v["Rxy"].shape[1]:
            return j
        return j + myg + (2 * myg if dn and j >= t["ny_inner"] else 0)

    wl, wr, where = 0.0, 0.0, None
    for x in range(t["nx"]):
        for j in range(t["ny"]):
            nj = decode_next(t, x, j)
            if nj is None:
                continue
            a, b = arr(j), arr(nj)
            dl = float(np.hypot(v["Rxy_upper_left_corners"][x, a] - v["Rxy_corners"][x, b], v["Zxy_upper_left_corners"][x, a] - v["Zxy_corners"][x, b]))
            dr = float(np.hypot(v["Rxy_upper_right_corners"][x, a] - v["Rxy_lower_right_corners"][x, b],
                                v["Zxy_upper_right_corners"][x, a] - v["Zxy_lower_right_corners"][x, b]))
            if max(dl, dr) > max(wl, wr):
                where = (x, a, b, "left" if dl >= dr else "right")
            wl, wr = max(wl, dl), max(wr, dr)
    return wl, wr, where


def real_grid_corners(res, tier):
    """on real grids the corner coordinates exhibit the decoded adjacency, and shared-edge points coincide"""
    import gridlab

    # circular: the only topology whose periodic y-group starts with region number 0
    specs = [gridlab.tokamak_spec("lsn"), gridlab.tokamak_spec("cdn", options={"ny_inner_upper_divertor": 2, "ny_outer_upper_divertor": 5}),
             gridlab.circular_spec(),
             # a disconnected double null: the eight cells round the *second* X-point meet on the second separatrix
             gridlab.tokamak_spec("ldn"),
             # non-orthogonal with radial segments of different widths (nx = 2, 1, 2): points on a contour shared by two radially adjacent
             # regions are placed by each region separately and must coincide
             gridlab.tokamak_spec("ldn", options={"orthogonal": False})]
    if tier == "thorough":
        specs += [gridlab.tokamak_spec("udn"), gridlab.tokamak_spec("usn", options={"y_boundary_guards": 2}),
                  gridlab.tokamak_spec("udn", options={"orthogonal": False, "nx_inter_sep": 2}),
                  gridlab.tokamak_spec("lsn", options={"orthogonal": False, "ny_outer_divertor": 9}),
                  gridlab.circular_spec(options={"number_of_processors": 1, "nx": 3, "ny": 12})]
    for g in gridlab.get(specs):
        name = g["spec"].get("geometry", "circular")
        if g["error"]:
            res.case(key=("grid-refused", name), nontrivial=False)
            continue
        v = g["vars"]
        t = {k: int(v[k]) for k in ["nx", "ny", "ixseps1", "ixseps2", "jyseps1_1", "jyseps2_1", "ny_inner", "jyseps1_2", "jyseps2_2"]}
        myg = int(v["y_boundary_guards"])
        dn = t["jyseps2_1"] != t["jyseps1_2"]

        def arr(j):
            if t["jyseps1_1"] < 0 and not dn and t["ny"] == v["Rxy"].shape[1]:
                return j
            return j + myg + (2 * myg if dn and j >= t["ny_inner"] else 0)

        worst = 0.0
        for x in range(t["nx"]):
            for j in range(t["ny"]):
                nj = decode_next(t, x, j)
                if nj is None:
                    continue
                a, b = arr(j), arr(nj)
                # upper-left corner of (x,j) == lower-left corner of (x,nj); upper face == lower face of the next cell
                d = max(abs(v["Rxy_upper_left_corners"][x, a] - v["Rxy_corners"][x, b]) if "Rxy_upper_left_corners" in v else 0.0,
                        abs(v["Zxy_upper_left_corners"][x, a] - v["Zxy_corners"][x, b]) if "Zxy_upper_left_corners" in v else 0.0)
                worst = max(worst, d)
        if "Rxy_upper_right_corners" in v:
            wl_, wr_, where_y = y_adjacent_corner_mismatch(v)
            worst = max(worst, wl_, wr_)
        # x-neighbours (contiguous in x in every topology) share the corners of their common edge
        worst_x, where_x = 0.0, None
        if all(("Rxy" + c) in v for c in ("_lower_right_corners", "_upper_right_corners", "_upper_left_corners", "_corners")):
            for (a_, b_) in (("_lower_right_corners", "_corners"), ("_upper_right_corners", "_upper_left_corners")):
                d = np.hypot(v["Rxy" + a_][:-1, :] - v["Rxy" + b_][1:, :], v["Zxy" + a_][:-1, :] - v["Zxy" + b_][1:, :])
                if d.size and np.nanmax(d) > worst_x:
                    worst_x = float(np.nanmax(d))
                    where_x = tuple(int(q) for q in np.unravel_index(np.nanargmax(d), d.shape)) + (a_,)
        res.extra.setdefault("real_grid_corner_mismatch_m", {})["%s%s g%d" % (name, "" if g["spec"].get("options", {}).get("orthogonal", True) else "-nonorth", myg)] = {
            "y_neighbours": worst, "x_neighbours": worst_x, "x_where": where_x}
        # each region interpolates the shared contour on its own FineContour: chord sag of the fine spacing (as for the wall points of C11)
        nonorth_ = not g["spec"].get("options", {}).get("orthogonal", True)
        tol_x = 2e-5 * (40.0 / g["spec"].get("options", {}).get("finecontour_Nfine", 40)) ** 2 if nonorth_ else 1e-6
        if worst_x > tol_x:
            # where are the corners that disagree? (a known weakness sits within two rows of the secondary X-point, on its own separatrix)
            nearsec = False
            if dn and nonorth_ and t["ixseps1"] != t["ixseps2"]:
                xb = max(t["ixseps1"], t["ixseps2"]) - 1
                rows = set()
                for jj in (t["jyseps1_1"], t["jyseps2_1"], t["jyseps1_2"], t["jyseps2_2"]):
                    for dj in (-1, 0, 1, 2, 3):
                        rows.add(arr(max(0, min(t["ny"] - 1, jj + dj))))
                allbad = []
                for (a_, b_) in (("_lower_right_corners", "_corners"), ("_upper_right_corners", "_upper_left_corners")):
                    d = np.hypot(v["Rxy" + a_][:-1, :] - v["Rxy" + b_][1:, :], v["Zxy" + a_][:-1, :] - v["Zxy" + b_][1:, :])
                    allbad += [(int(i), int(j)) for i, j in np.argwhere(d > tol_x)]
                nearsec = bool(allbad) and all(i == xb and j in rows for i, j in allbad)
            res.violation(("corners-x-near-secondary-xpoint:" if nearsec else "corners-x:") + name + ("" if g["spec"].get("options", {}).get("orthogonal", True) else "-nonorth"),
                          "cells (%d, %d) and (%d, %d) are x-neighbours but the corner they share (%s of the first) differs by %.3g m between them"
                          % (where_x[0], where_x[1], where_x[0] + 1, where_x[1], where_x[2], worst_x), {"spec": g["spec"]})
        res.case(key=("grid", name, myg), nontrivial=True, sample={"op": "corner coincidence across decoded adjacency", "grid": name,
                                                                  "max_mismatch_m": worst})
        # chi / theta computed by the real calcZShift and written by the real writeGridfile: finite, within [0, 2 pi] and increasing along
        # the decoded poloidal walk on closed field lines, NaN on open ones (a toroidal field is present in all these grids)
        from props.c12 import core_mask

        closed = core_mask(v)
        for nm in ("chi", "theta"):
            if nm not in v:
                continue
            a2 = v[nm]
            if nm == "chi":
                if closed.any() and not np.isfinite(a2[closed]).all():
                    res.violation("real-chi-nan-core:" + name, "%s: chi is not finite at %d of %d cells on closed field lines (ShiftAngle not set for the periodic "
                                  "group?)" % (name, int((~np.isfinite(a2[closed])).sum()), int(closed.sum())), {"spec": g["spec"]})
                    continue
                if (~closed).any() and not np.isnan(a2[~closed]).all():
                    res.violation("real-chi-open:" + name, "%s: chi is not NaN at %d cells on open field lines" % (name, int((~np.isnan(a2[~closed])).sum())), {"spec": g["spec"]})
            if closed.any():
                vals = a2[closed]
                if np.isfinite(vals).all() and (vals.min() < -1e-9 or vals.max() > 2 * np.pi + 1e-9):
                    res.violation("real-%s-range:%s" % (nm, name), "%s: %s leaves [0, 2 pi] on closed field lines (%.6g .. %.6g)" % (name, nm, vals.min(), vals.max()), {"spec": g["spec"]})
                # increasing along the decoded walk within the core (the wrap from the last to the first core cell excepted)
                for x in range(t["nx"]):
                    for j in range(t["ny"]):
                        nj = decode_next(t, x, j)
                        if nj is None:
                            continue
                        a, b = arr(j), arr(nj)
                        if closed[x, a] and closed[x, b] and np.isfinite(a2[x, a]) and np.isfinite(a2[x, b]) and a2[x, b] <= a2[x, a] and a2[x, b] > 1.0:
                            res.violation("real-%s-order:%s" % (nm, name), "%s: %s decreases from cell (%d,%d) to its poloidal successor (%d,%d) away from the wrap" % (
                                name, nm, x, a, x, b), {"spec": g["spec"]})
                            break
        # theta (and its staggered copies) advances by dy from one array row to the next, boundary cells included; the only break is between the
        # boundary cells of the inner upper target and those of the outer upper target of a double null
        for nm in ("theta", "theta_xlow", "theta_ylow"):
            if nm not in v or "dy" not in v:
                continue
            th_, dy_ = v[nm], v["dy"]
            step = th_[:, 1:] - th_[:, :-1]
            if nm == "theta_ylow":
                want_ = dy_[:, :-1]
            else:
                want_ = 0.5 * (dy_[:, 1:] + dy_[:, :-1])
            with np.errstate(all="ignore"):
                badrows = sorted(set(int(j) for j in np.argwhere(np.isfinite(step) & (np.abs(step - want_) > 1e-9))[:, 1]))
            allowed = {t["ny_inner"] + 2 * myg - 1} if dn else set()
            extra_rows = [j for j in badrows if j not in allowed]
            if extra_rows:
                j = extra_rows[0]
                res.violation("real-theta-step:" + name, "%s: %s[., %d] - %s[., %d] = %.6f where dy = %.6f (rows that may break: %s)" % (
                    name, nm, j + 1, nm, j, float(step[0, j]), float(want_[0, j]), sorted(allowed)), {"spec": g["spec"]})
                break
        if worst > 1e-6:
            res.violation("corners:" + name, "corners of cells adjacent by the decoded topology do not coincide (max %.3g m)" % worst,
                          {"spec": g["spec"]})
        else:
            res.traces += 1


def replay(rep):
    case = rep["payload"]
    if "kind" not in case:
        print("REPLAY: real-grid replay: rebuild payload['spec'] with py/gridlab.py")
        return 1
    out = c08_stub.run_stub(case["kind"], case["options"])
    if out["error"]:
        print("REPLAY: generation refused:", out["error"])
        return 0
    bad = oracle(out, None, case)
    for wid, msg in bad:
        print("REPLAY:", wid, msg)
    return 1 if bad else 0
