"""C02 — metric tensor and Jacobian.  Model GENERATED from MeshRegion.calcMetric / geometry2 / calcZShift on every run
(py/gen/gen_metric.py); grid-level correspondence (file components vs the generated formulas applied to the file's own
R, Bp, hy, dphidy, beta) and the direct oracle on the written file."""
import numpy as np

import vlib

COMP = ["g11", "g22", "g33", "g12", "g13", "g23", "J", "g_11", "g_22", "g_33", "g_12", "g_13", "g_23"]


def pre(res):
    from gen import gen_metric

    try:
        changed = gen_metric.main()
        res.extra["generated"] = {"file": "lean/HypnoModel/Gen/Metric.lean", "changed_since_last_run": bool(changed)}
    except Exception as e:
        res.extra["generated"] = {"error": "%s: %s" % (type(e).__name__, e)}
        res.gen_error = "%s: %s" % (type(e).__name__, e)


def specs(tier):
    import gridlab

    ex = ["beta", "bpsign", "regions", "meshmeta", "gradpsi"]
    S = [gridlab.tokamak_spec("lsn", fpol="linear", extract=ex),                       # orthogonal, psi decreasing outwards (bpsign=-1)
         gridlab.tokamak_spec("ldn", fpol="const", extract=ex),                        # orthogonal, bpsign=+1
         gridlab.tokamak_spec("cdn", fpol="linear", options={"orthogonal": False}, extract=ex),  # non-orthogonal, bpsign=-1
         gridlab.tokamak_spec("ldn", fpol="linear", options={"orthogonal": False}, extract=ex),  # non-orthogonal, bpsign=+1
         gridlab.tokamak_spec("ldn", fpol="linear", options={"cap_Bp_ylow_xpoint": True}, extract=ex),   # option that rewrites Bpxy at y-faces (acts when Bp > 0)
         gridlab.circular_spec(extract=ex),
         gridlab.circular_spec(options={"number_of_processors": 1, "R0": 2.3, "B0": 3.2, "q_coefficients": [1.5, 2.0],
                                        "r_inner": 0.3, "r_outer": 0.9, "nx": 5, "ny": 12}, extract=ex)]
    # a grid on which no two options that could be confused coincide (see gridlab.odd_spec)
    S.append(gridlab.odd_spec("lsn", True, extract=ex))
    if tier == "thorough":
        S += [gridlab.tokamak_spec("usn", fpol="negconst", extract=ex),
              gridlab.tokamak_spec("udn", fpol="const", extract=ex),
              gridlab.tokamak_spec("cdn", fpol="const", options={"psi_interpolation_method": "dct"}, extract=ex),
              gridlab.tokamak_spec("lsn", fpol="const", psi_sign=-1.0, extract=ex),
              gridlab.tokamak_spec("cdn", fpol="linear", options={"orthogonal": False, "y_boundary_guards": 2}, extract=ex),
              gridlab.tokamak_spec("lsn", fpol="linear", options={"nx_core": 4, "nx_sol": 4, "ny_sol": 16, "ny_inner_divertor": 6,
                                                                  "ny_outer_divertor": 6}, extract=ex)]
    if tier == "thorough":
        S.append(gridlab.odd_spec("cdn", False, extract=ex))
    return S


def grid_name(g):
    s = g["spec"]
    q = s.get("options", {}).get("q_coefficients")
    return "%s%s%s%s%s" % (s.get("geometry", "circular"), "-odd" if s.get("odd") else "", "-capBp" if s.get("options", {}).get("cap_Bp_ylow_xpoint") else "",
                           ("" if s.get("options", {}).get("orthogonal", True) else "-nonorth") + ("" if s.get("psi_sign", 1.0) > 0 else "-psineg"),
                           "-q%s" % "_".join(str(c) for c in q) if q else "")


def loc_arrays(v, name, loc):
    key = name if loc == "centre" else name + "_" + loc
    return v.get(key)


def oracle_grid(res, g):
    """direct checks on the written file"""
    v = g["vars"]
    name = grid_name(g)
    spec = {"spec": g["spec"]}
    orth = g["spec"].get("options", {}).get("orthogonal", True)
    bad = []
    for loc in ("centre", "xlow", "ylow"):
        A = {c: loc_arrays(v, c, loc) for c in COMP}
        if any(a is None for a in A.values()):
            continue
        R, Bp, hy = loc_arrays(v, "Rxy", loc), loc_arrays(v, "Bpxy", loc), loc_arrays(v, "hy", loc)
        if not orth and loc == "xlow" and not np.any(A["g22"]) and not np.any(A["g_11"]):
            # the non-orthogonality angle is not computed at xlow; every component that needs it is written as zeros
            bad.append(("nonorth-xlow-metric-zero", "non-orthogonal grid: g22, g33, g12, g13, g23, g_11, g_12 at the xlow location are "
                        "written as all zeros (beta is not calculated there), so the xlow metric is not a metric"))
            continue
        ok = np.isfinite(A["g11"]) & np.isfinite(A["g_11"]) & (np.abs(Bp) > 1e-8)
        if loc != "centre":
            # faces touching an X-point have Bp -> 0; the property excludes nothing else
            ok &= np.abs(A["J"]) < 1e6
        up = np.array([[A["g11"], A["g12"], A["g13"]], [A["g12"], A["g22"], A["g23"]], [A["g13"], A["g23"], A["g33"]]])
        dn = np.array([[A["g_11"], A["g_12"], A["g_13"]], [A["g_12"], A["g_22"], A["g_23"]], [A["g_13"], A["g_23"], A["g_33"]]])
        prod = np.einsum("ijxy,jkxy->ikxy", up, dn)
        eye = np.eye(3)[:, :, None, None]
        scale = np.maximum(1.0, np.max(np.abs(np.einsum("ijxy,jkxy->ijkxy", up, dn)), axis=(0, 1, 2)))
        err = np.max(np.abs(prod - eye), axis=(0, 1)) / scale
        if np.nanmax(np.where(ok, err, 0.0)) > 1e-9:
            i = np.unravel_index(np.nanargmax(np.where(ok, err, 0.0)), err.shape)
            bad.append(("inverse:%s" % loc, "g^ij g_jk differs from the identity by %.3g (relative) at %s %s" % (err[i], loc, i)))
        Jerr = np.abs(A["J"] - hy / Bp) / np.abs(A["J"])
        if np.nanmax(np.where(ok, Jerr, 0.0)) > 1e-12:
            bad.append(("J:%s" % loc, "J differs from hy/Bpxy at %s" % loc))
        det = (A["g11"] * A["g22"] * A["g33"] + 2 * A["g12"] * A["g13"] * A["g23"] - A["g11"] * A["g23"] ** 2
               - A["g22"] * A["g13"] ** 2 - A["g33"] * A["g12"] ** 2)
        with np.errstate(all="ignore"):
            d2 = np.abs(np.abs(A["J"]) - 1 / np.sqrt(det)) / np.abs(A["J"])
        if np.nanmax(np.where(ok, d2, 0.0)) > 1e-8:
            bad.append(("Jdet:%s" % loc, "|J| differs from 1/sqrt(det g^ij) by %.3g at %s" % (np.nanmax(np.where(ok, d2, 0.0)), loc)))
        c1 = np.abs(A["g11"] - (R * Bp) ** 2) / np.maximum(1e-300, np.abs(A["g11"]))
        c2 = np.abs(A["g_33"] - R ** 2) / R ** 2
        if np.nanmax(np.where(ok, c1, 0.0)) > 1e-12 or np.nanmax(np.where(ok, c2, 0.0)) > 1e-12:
            bad.append(("closed:%s" % loc, "g11 != (R Bp)^2 or g_33 != R^2 at %s" % loc))
        # dx is d(psi), so the displacement per unit dx across the surfaces is 1/|grad psi|: g11 = |grad psi|^2 with the gradient taken
        # by differencing the equilibrium's psi(R, Z) itself (no use of Bp_R / Bp_Z, no truncation in the cell size)
        gp = g["extras"].get("gradpsi", {}).get(loc)
        if loc == "ylow" and g["spec"].get("options", {}).get("cap_Bp_ylow_xpoint"):
            gp = None   # the option replaces Bpxy at the y-faces next to an X-point by a capped value on purpose
        if gp is not None:
            # the file holds the lower faces only: drop the last x-face / y-face of the mesh arrays
            sh = A["g11"].shape
            gr2 = (gp["psiR"] ** 2 + gp["psiZ"] ** 2)[:sh[0], :sh[1]]
            with np.errstate(all="ignore"):
                okg = ok & np.isfinite(gr2) & (gr2 > 1e-6 * np.nanmax(gr2))
                eg = np.abs(A["g11"] / gr2 - 1.0)
            if okg.any():
                wg = float(np.nanmax(np.where(okg, eg, 0.0)))
                res.extra.setdefault("g11_vs_gradpsi", {}).setdefault(name, {})[loc] = wg
                if wg > 1e-5:
                    i = np.unravel_index(np.nanargmax(np.where(okg, eg, 0.0)), eg.shape)
                    bad.append(("g11-gradpsi:%s" % loc, "g11 differs from |grad psi|^2 (finite differences of the equilibrium's psi), i.e. g_11 from the "
                                "displacement per unit dx across the flux surfaces, by %.3g (relative) at %s %s" % (wg, loc, i)))
        # the closed forms are in R, Bp, Bt, hy: the field-line pitch dphidy that enters g22/g33/g23/g_22/g_23 is hy Bt / (Bp R) of the
        # values stored at the same location
        dph, Bt = loc_arrays(v, "dphidy", loc), loc_arrays(v, "Btxy", loc)
        if dph is not None and Bt is not None:
            with np.errstate(all="ignore"):
                want = hy * Bt / (Bp * R)
                ed = np.abs(dph - want) / np.maximum(np.abs(want), 1e-300)
            okd = ok & np.isfinite(ed) & (np.abs(want) > 0)
            if okd.any() and np.nanmax(np.where(okd, ed, 0.0)) > 1e-10:
                i = np.unravel_index(np.nanargmax(np.where(okd, ed, 0.0)), ed.shape)
                bad.append(("closed-pitch:%s" % loc, "dphidy differs from hy Bt / (Bp R) of the stored fields by %.3g (relative) at %s %s, so g33, g23, g_22, g_23 are not their "
                            "closed forms in R, Bp, Bt, hy there" % (float(ed[i]), loc, i)))
        if orth:
            for c in ("g12", "g13", "g_12", "g_13"):
                if np.nanmax(np.abs(np.where(ok, A[c], 0.0))) != 0.0:
                    bad.append(("orthzero:%s" % c, "%s is not zero on an orthogonal grid" % c))
    # y-z coupling against the toroidal shift stored in the same file: g_23 = g_33 * d(zShift)/dy at cell centres
    z = v.get("zShift_ylow")
    if z is not None and np.nanmax(np.abs(v["Btxy"])) > 0:
        dy = v["dy"]
        meta = g["extras"]["meshmeta"]
        regs = g["extras"]["regions"]
        worst, where, nsign = 0.0, None, 0
        allrel = []
        for rid, (sx, sy) in meta["region_indices"].items():
            x0, x1, y0, y1 = sx.start, sx.stop, sy.start, sy.stop
            # inside a region consecutive ylow values bracket the centre; the last cell's upper face belongs to the next region
            for yy in range(y0, y1 - 1):
                dz = (z[x0:x1, yy + 1] - z[x0:x1, yy]) / dy[x0:x1, yy]
                lhs = v["g_23"][x0:x1, yy]
                rhs = v["g_33"][x0:x1, yy] * dz
                m = np.isfinite(lhs) & np.isfinite(rhs) & (np.abs(rhs) > 1e-12)
                if not m.any():
                    continue
                rel = np.abs(lhs[m] / rhs[m] - 1.0)
                allrel += rel.tolist()
                nsign += int((lhs[m] * rhs[m] < 0).sum())
                if rel.max() > worst:
                    worst, where = float(rel.max()), (rid, yy)
        # the cell-centre zShift against the y-face zShift of the same file: where the integrand keeps one sign the centre value lies between
        # the values at the two faces of its cell (each output location is handed from region to region separately)
        zc = v.get("zShift")
        if zc is not None:
            nout, nchk, wout = 0, 0, None
            for rid, (sx, sy) in meta["region_indices"].items():
                x0, x1, y0, y1 = sx.start, sx.stop, sy.start, sy.stop
                for yy in range(y0, y1 - 1):
                    lo, hi, c = z[x0:x1, yy], z[x0:x1, yy + 1], zc[x0:x1, yy]
                    m = np.isfinite(lo) & np.isfinite(hi) & np.isfinite(c) & (np.abs(hi - lo) > 1e-12)
                    if not m.any():
                        continue
                    t = (c[m] - lo[m]) / (hi[m] - lo[m])
                    nchk += int(m.sum())
                    out_ = (t < -1e-9) | (t > 1 + 1e-9)
                    if out_.any():
                        nout += int(out_.sum())
                        wout = wout or (rid, yy, float(t[out_][0]))
            res.extra.setdefault("zshift_centre_between_faces", {})[name] = {"cells": nchk, "outside": nout}
            if nout:
                bad.append(("zshift-centre-outside-faces:%s" % ("orth" if orth else "nonorth"),
                            "zShift at %d of %d cell centres is not between zShift_ylow at the two y-faces of the cell (e.g. region %s, y=%d: fraction %.3g), so "
                            "g_23 = g_33 d(zShift)/dy fails between the centre and ylow locations" % ((nout, nchk) + wout)))
        if nsign > 0:
            bad.append(("g23-zshift-sign:%s" % ("orth" if orth else "nonorth"),
                        "g_23 has the opposite sign of g_33*d(zShift)/dy at %d cell centres (worst ratio error %.3g)" % (nsign, worst)))
        elif allrel and (np.median(allrel) > 0.05 or worst > 1.0):
            # a centred difference over one cell against a point value: second order in dy, large only next to X-points
            bad.append(("g23-zshift", "g_23 differs from g_33*d(zShift)/dy: median relative %.3g, worst %.3g in region %s" % (
                float(np.median(allrel)), worst, where)))
        res.extra.setdefault("g23_vs_zshift", {})[name] = {"median_rel": float(np.median(allrel)) if allrel else None, "max_rel": worst,
                                                          "opposite_sign_cells": nsign}
    # covariant components against displacements between neighbouring grid points (convention independent)
    Rc, Zc = v["Rxy"], v["Zxy"]
    Rx, Zx = v.get("Rxy_xlow"), v.get("Zxy_xlow")
    Ry, Zy = v.get("Rxy_ylow"), v.get("Zxy_ylow")
    if Rx is not None and Ry is not None:
        meta = g["extras"]["meshmeta"]
        w12, n12, s12 = 0.0, 0, 0
        w11 = 0.0
        w22 = 0.0
        for rid, (sx, sy) in meta["region_indices"].items():
            x0, x1, y0, y1 = sx.start, sx.stop, sy.start, sy.stop
            if x1 - x0 < 2 or y1 - y0 < 2:
                continue
            # displacement across a cell in x: xlow(i+1) - xlow(i), in y: ylow(j+1) - ylow(j), both centred on the cell centre
            ex = np.array([Rx[x0 + 1:x1, y0:y1 - 1] - Rx[x0:x1 - 1, y0:y1 - 1], Zx[x0 + 1:x1, y0:y1 - 1] - Zx[x0:x1 - 1, y0:y1 - 1]])
            ey = np.array([Ry[x0:x1 - 1, y0 + 1:y1] - Ry[x0:x1 - 1, y0:y1 - 1], Zy[x0:x1 - 1, y0 + 1:y1] - Zy[x0:x1 - 1, y0:y1 - 1]])
            dx = v["dx"][x0:x1 - 1, y0:y1 - 1]
            dyy = v["dy"][x0:x1 - 1, y0:y1 - 1]
            g11d = (ex ** 2).sum(0) / dx ** 2
            g22d = (ey ** 2).sum(0) / dyy ** 2
            g12d = (ex * ey).sum(0) / (dx * dyy)
            f11 = v["g_11"][x0:x1 - 1, y0:y1 - 1]
            f12 = v["g_12"][x0:x1 - 1, y0:y1 - 1]
            hy2 = v["hy"][x0:x1 - 1, y0:y1 - 1] ** 2
            m = np.isfinite(f11) & np.isfinite(g11d)
            if m.any():
                w11 = max(w11, float(np.nanmax(np.abs(g11d[m] / f11[m] - 1))))
                w22 = max(w22, float(np.nanmax(np.abs(g22d[m] / hy2[m] - 1))))
                big = m & (np.abs(f12) > 0.05 * np.sqrt(np.abs(f11 * hy2)))
                if big.any():
                    n12 += int(big.sum())
                    s12 += int((f12[big] * g12d[big] < 0).sum())
                    w12 = max(w12, float(np.nanmax(np.abs(g12d[big] / f12[big] - 1))))
        res.extra.setdefault("displacement_products", {})[name] = {"g_11_max_rel": w11, "hy2_max_rel": w22, "g_12_cells": n12,
                                                                   "g_12_sign_mismatch": s12, "g_12_max_rel": w12}
        if w11 > 0.5 or w22 > 0.5:
            bad.append(("displacement", "g_11 / hy^2 differ from the squared displacements per dx^2, dy^2 by %.2g / %.2g" % (w11, w22)))
        # the y-faces, including those on region joins: the poloidal part of g_22 at ylow is the squared distance per dy^2 between the
        # two cell centres either side of the face (chord <= arc, within the curvature of one cell)
        if all(k in v for k in ("g_22_ylow", "g_23_ylow", "g_33_ylow")):
            regs = g["extras"]["regions"]
            hyl2 = v["g_22_ylow"] - v["g_23_ylow"] ** 2 / v["g_33_ylow"]
            wy, wy_where = 0.0, None
            for chain in meta["y_groups"]:
                first = regs[chain[0]]
                periodic = first["connections"].get("lower") is not None
                sx0 = meta["region_indices"][chain[0]][0]
                for xi in range(sx0.stop - sx0.start):
                    cen, fac = [], []
                    for rid in chain:
                        sx, sy = meta["region_indices"][rid]
                        x = sx.start + xi
                        for y in range(sy.start, sy.stop):
                            cen.append((Rc[x, y], Zc[x, y]))
                            fac.append((hyl2[x, y], v["dy"][x, y], rid, x, y, Ry[x, y], Zy[x, y]))
                    for k in range(len(cen)):
                        if k == 0 and not periodic:
                            continue
                        h2, dyk, rid, x, y, fr, fz = fac[k]
                        # two chords centre -> face -> centre (the face is where the contour turns most, e.g. next to an X-point)
                        d2 = (np.hypot(fr - cen[k - 1][0], fz - cen[k - 1][1]) + np.hypot(cen[k][0] - fr, cen[k][1] - fz)) ** 2 / dyk ** 2
                        if np.isfinite(h2) and np.isfinite(d2) and d2 > 0 and h2 > 0:
                            e = abs(np.sqrt(h2 / d2) - 1.0)
                            if e > wy:
                                wy, wy_where = float(e), (rid, x, y)
            res.extra.setdefault("displacement_products", {})[name]["hy_ylow_max_rel"] = wy
            if wy > 0.15:
                bad.append(("displacement-ylow", "sqrt(g_22 - g_23^2/g_33) at a y-face differs from the distance per dy between the neighbouring cell centres by %.2g "
                            "(relative) at region %s, (x, y) = (%d, %d)" % ((wy,) + wy_where)))
        if n12 and s12 > 0.1 * n12:
            bad.append(("displacement-g12-sign", "g_12 has the opposite sign of the scalar product of the x and y displacements at %d of %d cells" % (s12, n12)))
    for wid, msg in bad:
        res.violation(wid + ":" + name if wid.startswith("g23") else wid, msg, spec)
    return not bad


def correspondence(res, g, lines, pend):
    """file components vs the generated formulas applied to the file's own primitive fields"""
    v = g["vars"]
    orth = g["spec"].get("options", {}).get("orthogonal", True)
    beta = g["extras"].get("beta", {})
    meta = g["extras"]["meshmeta"]
    bps = g["extras"]["bpsign"]
    h = vlib.f2hex
    r = vlib.rng("c02-points-" + grid_name(g))
    for loc in ("centre", "xlow", "ylow"):
        A = {c: loc_arrays(v, c, loc) for c in COMP}
        if any(a is None for a in A.values()):
            continue
        R, Bp, hy, dphi = (loc_arrays(v, n, loc) for n in ("Rxy", "Bpxy", "hy", "dphidy"))
        if orth:
            cb = np.ones_like(R)
            tb = np.zeros_like(R)
        else:
            if not beta or beta.get("cosBeta") is None:
                continue
            cb, tb = beta["cosBeta"][loc], beta["tanBeta"][loc]
        idx = []
        for rid, (sx, sy) in meta["region_indices"].items():
            for x in range(sx.start, sx.stop):
                for y in range(sy.start, sy.stop):
                    idx.append((x, y, bps[rid]))
        r.shuffle(idx)
        for x, y, s in idx[:120]:
            vals = [R[x, y], Bp[x, y], hy[x, y], dphi[x, y], cb[x, y], tb[x, y], s]
            if not all(np.isfinite(vals)) or abs(Bp[x, y]) < 1e-8:
                continue
            lines.append("c02 %s %s" % ("orth" if orth else "nonorth", " ".join(h(t) for t in vals)))
            pend.append((grid_name(g), loc, x, y, [A[c][x, y] for c in COMP]))


def run(res, tier):
    import gridlab

    res.rule = ("real grids (orthogonal with bpsign=-1 and +1, non-orthogonal, circular; varying fpol): (a) oracle on the file: "
                "g^ij g_jk = identity, J = hy/Bp, |J| = 1/sqrt(det), closed forms, orthogonal zeros, g_23 = g_33 d(zShift)/dy by "
                "differences of zShift_ylow, covariant components vs scalar products of neighbouring-point displacements; "
                "(b) file components at sampled points vs the Float twins of the GENERATED formulas applied to the file's own R, Bp, hy, "
                "dphidy, beta. non-trivial = grid with at least one X-point; distinct by (grid, location, point)")
    res.trusted += ["py2lean translation of calcMetric validated by the Float twins on file data every run",
                    "I = 0 (shiftedmetric=True; the code raises otherwise)"]
    lines, pend = [], []
    for g in gridlab.get(specs(tier)):
        name = grid_name(g)
        if g["error"]:
            res.case(key=("grid-refused", name, g["error"][0]), nontrivial=False)
            res.extra.setdefault("refused", []).append([name, g["error"][0], g["error"][1][:200]])
            continue
        res.case(key=("grid", name, str(sorted(g["spec"]["options"].items()))), nontrivial="circular" not in name,
                 sample={"grid": name, "nx": int(g["vars"]["nx"]), "ny": int(g["vars"]["ny"])})
        if oracle_grid(res, g):
            res.traces += 1
        if not res.gen_error:
            correspondence(res, g, lines, pend)
    if res.gen_error:
        res.broken("translator could not regenerate the model (fail-closed)", res.gen_error)
        return
    try:
        mo = vlib.lean_driver(lines) if lines else []
    except Exception as ex:
        res.broken("generated model does not build / run", str(ex)[-800:])
        return
    worst = {}
    for (name, loc, x, y, want), m in zip(pend, mo):
        got = [vlib.hex2f(t) for t in m.split()][:13]
        res.case(key=("pt", name, loc, x, y), nontrivial=True)
        for c, a, b in zip(COMP, got, want):
            e = abs(a - b) / max(1e-300, abs(a), abs(b)) if (a != 0 or b != 0) else 0.0
            worst[c] = max(worst.get(c, 0.0), e)
            if e > 1e-11:
                res.broken("file component differs from the generated formula applied to the file's own fields",
                           {"grid": name, "loc": loc, "x": x, "y": y, "component": c, "file": b, "model": a})
                break
        else:
            res.traces += 1
    res.extra["max_rel_diff_file_vs_generated"] = worst


def replay(rep):
    import gridlab

    spec = rep["payload"]["spec"]
    g = gridlab.get([spec])[0]
    if g["error"]:
        print("REPLAY: generation refused", g["error"][:2])
        return 0
    r = vlib.Result("C02", "quick")
    ok = oracle_grid(r, g)
    for wid, what, _ in r.violations:
        print("REPLAY:", wid, what)
    return 0 if ok else 1
