#!/venv/bin/python
"""Entry point:  /venv/bin/python py/check.py Cxx --tier quick|thorough [--replay file]"""
import argparse
import importlib
import json
import os
import sys
import traceback

sys.path.insert(0, os.path.dirname(os.path.abspath(__file__)))
import vlib  # noqa: E402


def main():
    ap = argparse.ArgumentParser()
    ap.add_argument("pid", nargs="?")
    ap.add_argument("--tier", default=os.environ.get("VERIF_TIER", "quick"), choices=["quick", "thorough"])
    ap.add_argument("--replay")
    ap.add_argument("--no-lean", action="store_true", help="development only: skip the Lean build/audit")
    a = ap.parse_args()
    pid = a.pid
    replay = None
    if a.replay:
        with open(a.replay) as fh:
            replay = json.load(fh)
        pid = pid or replay["property"]
    if not pid:
        ap.error("property id required")
    vlib.ensure_dirs()
    try:
        vlib.use_repo()
        mod = importlib.import_module("props.%s" % pid.lower())
        res = vlib.Result(pid, a.tier)
        if replay is not None:
            rc = mod.replay(replay)
            sys.exit(rc)
        import glob

        for f in glob.glob(os.path.join(vlib.REPLAYS, "%s-*.json" % pid)):
            os.remove(f)
        if hasattr(mod, "pre"):
            mod.pre(res)
        if not a.no_lean:
            if getattr(res, "gen_error", None):
                th = vlib.load_theorems()[pid]
                res.obligations = list(th["theorems"])
                for n in th["theorems"]:
                    res.proof_failures.append((n, "model could not be regenerated from the source: " + res.gen_error))
            else:
                vlib.prove(res, pid, thorough=(a.tier == "thorough"))
        mod.run(res, a.tier)
        sys.exit(res.finish())
    except SystemExit:
        raise
    except BaseException:
        traceback.print_exc()
        print("INFRASTRUCTURE FAILURE in check %s (exit 2; not a violation)" % pid)
        sys.exit(2)


if __name__ == "__main__":
    main()
