"""In-process extractors run by gridlab's worker after a grid has been generated: eq, mesh -> picklable data."""
import numpy as np


def regions(eq, mesh, spec):
    out = {}
    for rid, r in mesh.regions.items():
        out[rid] = {
            "name": r.name, "nx": r.nx, "ny": r.ny, "ny_noguards": r.ny_noguards,
            "connections": dict(r.connections), "radialIndex": r.radialIndex,
            "psi_vals": np.array(r.psi_vals, dtype=float),
            "yGroupIndex": getattr(r, "yGroupIndex", None),
            "myID": r.myID,
        }
    return out


def meshmeta(eq, mesh, spec):
    return {
        "region_indices": {k: (v[0], v[1]) for k, v in mesh.region_indices.items()} if hasattr(mesh, "region_indices") else None,
        "nx": mesh.nx, "ny": mesh.ny, "ny_noguards": mesh.ny_noguards,
        "x_groups": [[r.myID for r in g] for g in mesh.x_groups],
        "y_groups": [[r.myID for r in g] for g in mesh.y_groups],
    }


def eqinfo(eq, mesh, spec):
    out = {}
    for k in ("psi_sep", "psi_axis", "psi_bdry", "psi_core", "psi_sol", "psi_sol_inner", "psi_pf_lower", "psi_pf_upper",
              "double_null_type"):
        if hasattr(eq, k):
            v = getattr(eq, k)
            out[k] = [float(x) for x in v] if isinstance(v, (list, tuple)) else (float(v) if isinstance(v, (int, float, np.floating)) else v)
    for k in ("psi_core", "psi_sol", "psi_sol_inner", "psi_pf_lower", "psi_pf_upper", "psinorm_core", "psinorm_sol"):
        try:
            out["opt_" + k] = float(getattr(eq.user_options, k))
        except Exception:
            pass
    if hasattr(eq, "x_points"):
        out["x_points"] = [(float(p.R), float(p.Z)) for p in eq.x_points]
    if hasattr(eq, "o_point"):
        out["o_point"] = (float(eq.o_point.R), float(eq.o_point.Z))
    return out


def assemble(mesh, name):
    """collect a per-region MultiLocationArray attribute into global arrays (centre, xlow, ylow) like addFromRegions"""
    out = {}
    nx, ny = mesh.nx, mesh.ny
    for loc in ("centre", "xlow", "ylow"):
        out[loc] = np.full((nx, ny), np.nan)
    for region in mesh.regions.values():
        if not hasattr(region, name):
            return None
        f = getattr(region, name)
        sl = mesh.region_indices[region.myID]
        if f._centre_array is not None:
            out["centre"][sl] = f.centre
        if f._xlow_array is not None:
            out["xlow"][sl] = f.xlow[:-1, :]
        if f._ylow_array is not None:
            out["ylow"][sl] = f.ylow[:, :-1]
    return out


def beta(eq, mesh, spec):
    return {n: assemble(mesh, n) for n in ("cosBeta", "tanBeta", "sinBeta")}


def bpsign(eq, mesh, spec):
    return {rid: float(r.bpsign) for rid, r in mesh.regions.items()}


def fieldpts(eq, mesh, spec):
    """point values of the equilibrium's field functions at the cell centres (global arrays), and finite-difference curl of b/B
    computed independently of the helper chain"""
    R, Z = mesh.Rxy.centre, mesh.Zxy.centre
    out = {}
    psi = eq.psi(R, Z)
    out["BR"], out["BZ"] = eq.Bp_R(R, Z), eq.Bp_Z(R, Z)
    out["f"] = eq.fpol(psi) + 0.0 * R
    out["fp"] = eq.fpolprime(psi) + 0.0 * R
    out["pRR"], out["pZZ"], out["pRZ"] = eq.d2psidR2(R, Z), eq.d2psidZ2(R, Z), eq.d2psidRdZ(R, Z)
    h = 1.0e-5

    def A(a, b):
        B2 = eq.Bp_R(a, b) ** 2 + eq.Bp_Z(a, b) ** 2 + (eq.fpol(eq.psi(a, b)) / a) ** 2
        return eq.Bp_R(a, b) / B2, (eq.fpol(eq.psi(a, b)) / a) / B2, eq.Bp_Z(a, b) / B2

    ARp, AzetaRp, AZRp = A(R + h, Z)
    ARm, AzetaRm, AZRm = A(R - h, Z)
    ARZp, AzetaZp, AZZp = A(R, Z + h)
    ARZm, AzetaZm, AZZm = A(R, Z - h)
    out["curlR"] = -(AzetaZp - AzetaZm) / (2 * h)
    out["curlZ"] = ((R + h) * AzetaRp - (R - h) * AzetaRm) / (2 * h) / R
    out["curlzeta"] = (ARZp - ARZm) / (2 * h) - (AZRp - AZRm) / (2 * h)
    out["psiR"] = (eq.psi(R + h, Z) - eq.psi(R - h, Z)) / (2 * h)
    out["psiZ"] = (eq.psi(R, Z + h) - eq.psi(R, Z - h)) / (2 * h)
    return {k: np.array(v, dtype=float) for k, v in out.items()}


def profiles(eq, mesh, spec):
    """expected pressure at the cell centres from the input profile: reflected about the leg's own separatrix in leg regions"""
    out = {"regions": {}}
    if getattr(eq, "p_spl", None) is None:
        return out
    sign = float(np.sign(eq.psi_sep[0] - eq.psi_axis))
    exp = np.full((mesh.nx, mesh.ny), np.nan)
    for rid, r in mesh.regions.items():
        er = r.equilibriumRegion
        name = er.name
        kind = er.kind
        leg_psi = float(er.psival) if er.psival is not None else None
        psi = r.psixy.centre
        if "wall" in kind:
            pe = eq.pressure(leg_psi + sign * np.abs(psi - leg_psi))
        else:
            pe = eq.pressure(psi)
        exp[mesh.region_indices[rid]] = pe
        out["regions"][rid] = {"name": name, "kind": kind, "leg_psi": leg_psi}
    out["expected_pressure"] = exp
    out["sign"] = sign
    out["psi_sep"] = [float(x) for x in eq.psi_sep]
    out["psi_axis"] = float(eq.psi_axis)
    out["o_point"] = (float(eq.o_point.R), float(eq.o_point.Z))
    out["x_point"] = (float(eq.x_point.R), float(eq.x_point.Z))
    out["fpol_axis"] = float(eq.fpol(eq.psi_axis))
    h = 1e-6
    out["grad_at_o"] = [float((eq.psi(eq.o_point.R + h, eq.o_point.Z) - eq.psi(eq.o_point.R - h, eq.o_point.Z)) / (2 * h)),
                        float((eq.psi(eq.o_point.R, eq.o_point.Z + h) - eq.psi(eq.o_point.R, eq.o_point.Z - h)) / (2 * h))]
    out["grad_at_x"] = [float((eq.psi(eq.x_point.R + h, eq.x_point.Z) - eq.psi(eq.x_point.R - h, eq.x_point.Z)) / (2 * h)),
                        float((eq.psi(eq.x_point.R, eq.x_point.Z + h) - eq.psi(eq.x_point.R, eq.x_point.Z - h)) / (2 * h))]
    out["psi_at_o"] = float(eq.psi(eq.o_point.R, eq.o_point.Z))
    out["psi_at_x"] = float(eq.psi(eq.x_point.R, eq.x_point.Z))
    return out


def contours(eq, mesh, spec):
    """per region and contour: coarse distances, startInd/endInd, FineContour distance and the zShift integrand on it;
    chain structure (y-groups) — everything calcHy / calcPoloidalDistance / calcZShift read"""
    out = {"regions": {}, "y_groups": [[r.myID for r in g] for g in mesh.y_groups]}
    for rid, r in mesh.regions.items():
        cs = []
        for c in r.contours:
            d = np.array(c.get_distance(psi=eq.psi), dtype=float)
            fc = c.get_fine_contour(psi=eq.psi)
            Rf, Zf = fc.positions[:, 0], fc.positions[:, 1]
            Bt = eq.fpol(eq.psi(Rf, Zf)) / Rf
            Bp = np.sqrt(eq.Bp_R(Rf, Zf) ** 2 + eq.Bp_Z(Rf, Zf) ** 2)
            cs.append({"d": d, "startInd": int(c.startInd), "endInd": int(c.endInd if c.endInd >= 0 else len(c) + c.endInd),
                       "fine_d": np.array(fc.distance, dtype=float), "fine_integrand": np.array(Bt / (Rf * Bp) + 0.0 * Rf, dtype=float),
                       "fine_startInd": int(fc.startInd), "fine_endInd": int(fc.endInd),
                       "R": np.array([p.R for p in c]), "Z": np.array([p.Z for p in c])})
        out["regions"][rid] = {"name": r.name, "nx": r.nx, "ny": r.ny, "connections": dict(r.connections), "yGroupIndex": r.yGroupIndex,
                               "contours": cs, "dy": float(mesh.dy_scalar)}
    return out


EXTRACTORS = {"contours": contours, "profiles": profiles, "fieldpts": fieldpts, "beta": beta, "bpsign": bpsign, "eqinfo": eqinfo, "regions": regions, "meshmeta": meshmeta}
