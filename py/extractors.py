"""In-process extractors run by gridlab's worker after a grid has been generated: eq, mesh -> picklable data."""
import numpy as np


def regions(eq, mesh, spec):
    out = {}
    for rid, r in mesh.regions.items():
        out[rid] = {
            "name": r.name, "nx": r.nx, "ny": r.ny, "ny_noguards": r.ny_noguards,
            "connections": dict(r.connections), "radialIndex": r.radialIndex,
            "psi_vals": np.array(r.psi_vals, dtype=float),
            "yGroupIndex": getattr(r, "yGroupIndex", None),
            "myID": r.myID,
        }
    return out


def meshmeta(eq, mesh, spec):
    return {
        "region_indices": {k: (v[0], v[1]) for k, v in mesh.region_indices.items()} if hasattr(mesh, "region_indices") else None,
        "nx": mesh.nx, "ny": mesh.ny, "ny_noguards": mesh.ny_noguards,
        "x_groups": [[r.myID for r in g] for g in mesh.x_groups],
        "y_groups": [[r.myID for r in g] for g in mesh.y_groups],
    }


def eqinfo(eq, mesh, spec):
    out = {}
    for k in ("psi_sep", "psi_axis", "psi_bdry", "psi_core", "psi_sol", "psi_sol_inner", "psi_pf_lower", "psi_pf_upper",
              "double_null_type"):
        if hasattr(eq, k):
            v = getattr(eq, k)
            out[k] = [float(x) for x in v] if isinstance(v, (list, tuple)) else (float(v) if isinstance(v, (int, float, np.floating)) else v)
    for k in ("psi_core", "psi_sol", "psi_sol_inner", "psi_pf_lower", "psi_pf_upper", "psinorm_core", "psinorm_sol"):
        try:
            out["opt_" + k] = float(getattr(eq.user_options, k))
        except Exception:
            pass
    if hasattr(eq, "x_points"):
        out["x_points"] = [(float(p.R), float(p.Z)) for p in eq.x_points]
    if hasattr(eq, "o_point"):
        out["o_point"] = (float(eq.o_point.R), float(eq.o_point.Z))
    return out


def assemble(mesh, name):
    """collect a per-region MultiLocationArray attribute into global arrays (centre, xlow, ylow) like addFromRegions"""
    out = {}
    nx, ny = mesh.nx, mesh.ny
    for loc in ("centre", "xlow", "ylow"):
        out[loc] = np.full((nx, ny), np.nan)
    for region in mesh.regions.values():
        if not hasattr(region, name):
            return None
        f = getattr(region, name)
        sl = mesh.region_indices[region.myID]
        if f._centre_array is not None:
            out["centre"][sl] = f.centre
        if f._xlow_array is not None:
            out["xlow"][sl] = f.xlow[:-1, :]
        if f._ylow_array is not None:
            out["ylow"][sl] = f.ylow[:, :-1]
    return out


def beta(eq, mesh, spec):
    return {n: assemble(mesh, n) for n in ("cosBeta", "tanBeta", "sinBeta")}


def bpsign(eq, mesh, spec):
    return {rid: float(r.bpsign) for rid, r in mesh.regions.items()}


def fieldpts(eq, mesh, spec):
    """point values of the equilibrium's field functions at the cell centres (global arrays), and finite-difference curl of b/B
    computed independently of the helper chain"""
    R, Z = mesh.Rxy.centre, mesh.Zxy.centre
    out = {}
    psi = eq.psi(R, Z)
    out["BR"], out["BZ"] = eq.Bp_R(R, Z), eq.Bp_Z(R, Z)
    out["f"] = eq.fpol(psi) + 0.0 * R
    out["fp"] = eq.fpolprime(psi) + 0.0 * R
    out["pRR"], out["pZZ"], out["pRZ"] = eq.d2psidR2(R, Z), eq.d2psidZ2(R, Z), eq.d2psidRdZ(R, Z)
    h = 1.0e-5

    def A(a, b):
        B2 = eq.Bp_R(a, b) ** 2 + eq.Bp_Z(a, b) ** 2 + (eq.fpol(eq.psi(a, b)) / a) ** 2
        return eq.Bp_R(a, b) / B2, (eq.fpol(eq.psi(a, b)) / a) / B2, eq.Bp_Z(a, b) / B2

    ARp, AzetaRp, AZRp = A(R + h, Z)
    ARm, AzetaRm, AZRm = A(R - h, Z)
    ARZp, AzetaZp, AZZp = A(R, Z + h)
    ARZm, AzetaZm, AZZm = A(R, Z - h)
    out["curlR"] = -(AzetaZp - AzetaZm) / (2 * h)
    out["curlZ"] = ((R + h) * AzetaRp - (R - h) * AzetaRm) / (2 * h) / R
    out["curlzeta"] = (ARZp - ARZm) / (2 * h) - (AZRp - AZRm) / (2 * h)
    out["psiR"] = (eq.psi(R + h, Z) - eq.psi(R - h, Z)) / (2 * h)
    out["psiZ"] = (eq.psi(R, Z + h) - eq.psi(R, Z - h)) / (2 * h)
    return {k: np.array(v, dtype=float) for k, v in out.items()}


def profiles(eq, mesh, spec):
    """expected pressure at the cell centres from the input profile: reflected about the leg's own separatrix in leg regions"""
    out = {"regions": {}}
    if getattr(eq, "p_spl", None) is None:
        return out
    sign = float(np.sign(eq.psi_sep[0] - eq.psi_axis))
    exp = np.full((mesh.nx, mesh.ny), np.nan)
    for rid, r in mesh.regions.items():
        er = r.equilibriumRegion
        name = er.name
        kind = er.kind
        leg_psi = float(er.psival) if er.psival is not None else None
        psi = r.psixy.centre
        if "wall" in kind:
            pe = eq.pressure(leg_psi + sign * np.abs(psi - leg_psi))
        else:
            pe = eq.pressure(psi)
        exp[mesh.region_indices[rid]] = pe
        out["regions"][rid] = {"name": name, "kind": kind, "leg_psi": leg_psi}
    out["expected_pressure"] = exp
    out["sign"] = sign
    out["psi_sep"] = [float(x) for x in eq.psi_sep]
    out["psi_axis"] = float(eq.psi_axis)
    out["o_point"] = (float(eq.o_point.R), float(eq.o_point.Z))
    out["x_point"] = (float(eq.x_point.R), float(eq.x_point.Z))
    out["fpol_axis"] = float(eq.fpol(eq.psi_axis))
    h = 1e-6
    out["grad_at_o"] = [float((eq.psi(eq.o_point.R + h, eq.o_point.Z) - eq.psi(eq.o_point.R - h, eq.o_point.Z)) / (2 * h)),
                        float((eq.psi(eq.o_point.R, eq.o_point.Z + h) - eq.psi(eq.o_point.R, eq.o_point.Z - h)) / (2 * h))]
    out["grad_at_x"] = [float((eq.psi(eq.x_point.R + h, eq.x_point.Z) - eq.psi(eq.x_point.R - h, eq.x_point.Z)) / (2 * h)),
                        float((eq.psi(eq.x_point.R, eq.x_point.Z + h) - eq.psi(eq.x_point.R, eq.x_point.Z - h)) / (2 * h))]
    out["psi_at_o"] = float(eq.psi(eq.o_point.R, eq.o_point.Z))
    out["psi_at_x"] = float(eq.psi(eq.x_point.R, eq.x_point.Z))
    out["psi_at_all_x"] = [float(eq.psi(p.R, p.Z)) for p in getattr(eq, "x_points", [])]
    return out


def contours(eq, mesh, spec):
    """per region and contour: coarse distances, startInd/endInd, FineContour distance and the zShift integrand on it;
    chain structure (y-groups) — everything calcHy / calcPoloidalDistance / calcZShift read"""
    out = {"regions": {}, "y_groups": [[r.myID for r in g] for g in mesh.y_groups]}
    for rid, r in mesh.regions.items():
        cs = []
        for c in r.contours:
            d = np.array(c.get_distance(psi=eq.psi), dtype=float)
            fc = c.get_fine_contour(psi=eq.psi)
            Rf, Zf = fc.positions[:, 0], fc.positions[:, 1]
            Bt = eq.fpol(eq.psi(Rf, Zf)) / Rf
            Bp = np.sqrt(eq.Bp_R(Rf, Zf) ** 2 + eq.Bp_Z(Rf, Zf) ** 2)
            cs.append({"d": d, "startInd": int(c.startInd), "endInd": int(c.endInd if c.endInd >= 0 else len(c) + c.endInd),
                       "fine_d": np.array(fc.distance, dtype=float), "fine_integrand": np.array(Bt / (Rf * Bp) + 0.0 * Rf, dtype=float),
                       "fine_startInd": int(fc.startInd), "fine_endInd": int(fc.endInd),
                       "R": np.array([p.R for p in c]), "Z": np.array([p.Z for p in c])})
        out["regions"][rid] = {"name": r.name, "nx": r.nx, "ny": r.ny, "connections": dict(r.connections), "yGroupIndex": r.yGroupIndex,
                               "contours": cs, "dy": float(mesh.dy_scalar)}
    return out


def onsurface(eq, mesh, spec):
    """psi of the equilibrium's interpolant at every written position array (cropped exactly as writeGridfile crops them), the
    regions' radial psi grids and which region corners are pinned to an X-point; also the per-point refinement log if enabled"""
    out = {"psi": {}, "pos": {}, "regions": {}}
    locs = {"": "centre", "_xlow": "xlow", "_ylow": "ylow", "_corners": "corners", "_lower_right_corners": "lower_right_corners",
            "_upper_right_corners": "upper_right_corners", "_upper_left_corners": "upper_left_corners"}
    nx, ny = mesh.nx, mesh.ny
    for suf, loc in locs.items():
        R = np.array(getattr(mesh.Rxy, loc))[:nx, :ny]
        Z = np.array(getattr(mesh.Zxy, loc))[:nx, :ny]
        out["pos"][suf] = (R, Z)
        out["psi"][suf] = np.array(eq.psi(R, Z))
    for rid, r in mesh.regions.items():
        er = r.equilibriumRegion
        sl = mesh.region_indices[rid]
        out["regions"][rid] = {
            "name": r.name, "slice": (sl[0], sl[1]), "psi_vals": np.array(r.psi_vals, dtype=float), "radialIndex": r.radialIndex,
            "pinned": {"ll": er.xPointsAtStart[r.radialIndex] is not None, "lr": er.xPointsAtStart[r.radialIndex + 1] is not None,
                       "ul": er.xPointsAtEnd[r.radialIndex] is not None, "ur": er.xPointsAtEnd[r.radialIndex + 1] is not None},
            "starts_at_xpoint": any(x is not None for x in er.xPointsAtStart), "ends_at_xpoint": any(x is not None for x in er.xPointsAtEnd),
            "contour_psival": [float(c.psival) for c in r.contours],
            "contour_err": [float(max(abs(float(eq.psi(p.R, p.Z)) - c.psival) for p in c)) for c in r.contours],
        }
    out["refine_atol"] = float(eq.user_options.refine_atol)
    out["xpoints"] = [(float(p.R), float(p.Z)) for p in getattr(eq, "x_points", [])]
    out["xpoints_psi"] = [float(eq.psi(p.R, p.Z)) for p in getattr(eq, "x_points", [])]
    return out


def perp(eq, mesh, spec):
    """orthogonal grids: distance of every contour point from an independent tight-tolerance integration of
    dr/dpsi = grad(psi)/|grad(psi)|^2 from the skeleton (separatrix) point with the same poloidal index"""
    from scipy.integrate import solve_ivp

    def rhs(t, x):
        return [float(eq.f_R(x[0], x[1])), float(eq.f_Z(x[0], x[1]))]

    out = {}
    for rid, r in mesh.regions.items():
        er = r.equilibriumRegion
        sk = [(float(p.R), float(p.Z)) for p in er]
        ncont, npts = len(r.contours), len(sk)
        dist = np.full((ncont, npts), np.nan)
        for j, p0 in enumerate(sk):
            psi0 = float(eq.psi(*p0))
            for i in range(ncont):
                target = float(r.psi_vals[i])
                q = r.contours[i][j] if j < len(r.contours[i]) else None
                if q is None:
                    continue
                if target == psi0:
                    end = p0
                else:
                    sol = solve_ivp(rhs, (psi0, target), p0, rtol=1e-13, atol=1e-14, method="DOP853")
                    if not sol.success:
                        continue
                    end = sol.y[:, -1]
                dist[i, j] = float(np.hypot(q.R - end[0], q.Z - end[1]))
        out[rid] = {"name": r.name, "dist": dist, "radialIndex": r.radialIndex, "lengths": [len(c) for c in r.contours], "nskel": npts,
                    "pinned": {"ll": er.xPointsAtStart[r.radialIndex] is not None, "lr": er.xPointsAtStart[r.radialIndex + 1] is not None,
                               "ul": er.xPointsAtEnd[r.radialIndex] is not None, "ur": er.xPointsAtEnd[r.radialIndex + 1] is not None},
                    "dpsi": float(np.min(np.abs(np.diff(r.psi_vals)))),
                    "spacing": float(np.median([np.hypot(r.contours[i + 1][j].R - r.contours[i][j].R, r.contours[i + 1][j].Z - r.contours[i][j].Z)
                                                for i in range(ncont - 1) for j in range(0, npts, 3)]))}
    return out


def wallinfo(eq, mesh, spec):
    """per region: the full ylow/corner position arrays (including the upper edge), the penalty mask, which ends are targets; the
    wall as stored; psi at the target faces"""
    out = {"closed_wall": np.array(eq.closed_wallarray) if hasattr(eq, "closed_wallarray") else None,
           "wall": [(float(p.R), float(p.Z)) for p in getattr(eq, "wall", [])],
           "p0": ((eq.Rmax + eq.Rmin) / 2, (eq.Zmax + eq.Zmin) / 2), "regions": {}}
    for rid, r in mesh.regions.items():
        sl = mesh.region_indices[rid]
        out["regions"][rid] = {
            "name": r.name, "slice": (sl[0], sl[1]), "lower_target": r.connections["lower"] is None, "upper_target": r.connections["upper"] is None,
            "Rylow": np.array(r.Rxy.ylow), "Zylow": np.array(r.Zxy.ylow), "Rc": np.array(r.Rxy.centre), "Zc": np.array(r.Zxy.centre),
            "Rcorn": np.array(r.Rxy.corners), "Zcorn": np.array(r.Zxy.corners), "penalty_mask": np.array(r.penalty_mask),
            "psi_vals": np.array(r.psi_vals, dtype=float), "psi_ylow": np.array(eq.psi(np.array(r.Rxy.ylow), np.array(r.Zxy.ylow))),
            "psi_corn": np.array(eq.psi(np.array(r.Rxy.corners), np.array(r.Zxy.corners))),
            "startInd": [int(c.startInd) for c in r.contours], "endInd": [int(c.endInd) for c in r.contours], "len": [len(c) for c in r.contours],
            "sep_contour": [bool(abs(c.psival - eq.psi_sep[0]) < 1e-9 * max(1.0, abs(eq.psi_sep[0]))) for c in r.contours] if hasattr(eq, "psi_sep") else [],
        }
    out["ng"] = int(mesh.user_options.y_boundary_guards)
    out["refine_atol"] = float(eq.user_options.refine_atol)
    return out


def stencil(eq, mesh, spec):
    """per region: psi_vals, dx (centre, x-faces), dphidy and ShiftTorsion at centre and x-faces, and the neighbouring centre values
    across the inner / outer region boundaries — what geometry1's dx and DDX('#dphidy') read and produce"""
    out = {}
    for rid, r in mesh.regions.items():
        inner, outer = r.getNeighbour("inner"), r.getNeighbour("outer")
        out[rid] = {
            "name": r.name, "psi_vals": np.array(r.psi_vals, dtype=float),
            "dx_centre": np.array(r.dx.centre), "dx_xlow": np.array(r.dx.xlow),
            "f_centre": np.array(r.dphidy.centre), "f_xlow": np.array(r.dphidy.xlow),
            "ddx_centre": np.array(r.ShiftTorsion.centre), "ddx_xlow": np.array(r.ShiftTorsion.xlow),
            "inner_psi": float(inner.psi_vals[-2]) if inner is not None else None, "outer_psi": float(outer.psi_vals[1]) if outer is not None else None,
            "inner_f": np.array(inner.dphidy.centre[-1, :]) if inner is not None else None,
            "outer_f": np.array(outer.dphidy.centre[0, :]) if outer is not None else None,
        }
    return out


def gradpsi(eq, mesh, spec):
    """centred finite differences of the equilibrium's psi(R, Z) at every output location (independent of Bp_R / Bp_Z)"""
    out = {}
    h = 1.0e-5
    for loc in ("centre", "xlow", "ylow"):
        R, Z = getattr(mesh.Rxy, loc), getattr(mesh.Zxy, loc)
        if R is None or Z is None:
            continue
        with np.errstate(all="ignore"):
            out[loc] = {"psiR": np.array((eq.psi(R + h, Z) - eq.psi(R - h, Z)) / (2 * h), dtype=float),
                        "psiZ": np.array((eq.psi(R, Z + h) - eq.psi(R, Z - h)) / (2 * h), dtype=float)}
    return out


def cornerpsi(eq, mesh, spec):
    """psi of the equilibrium at the four corner arrays as written to the file"""
    out = {}
    nx, ny = mesh.nx, mesh.ny
    for suf, loc in (("_corners", "corners"), ("_lower_right_corners", "lower_right_corners"), ("_upper_right_corners", "upper_right_corners"),
                     ("_upper_left_corners", "upper_left_corners")):
        R = np.array(getattr(mesh.Rxy, loc))[:nx, :ny]
        Z = np.array(getattr(mesh.Zxy, loc))[:nx, :ny]
        with np.errstate(all="ignore"):
            out[suf] = np.array(eq.psi(R, Z), dtype=float)
    return out


EXTRACTORS = {"cornerpsi": cornerpsi, "gradpsi": gradpsi, "stencil": stencil, "wallinfo": wallinfo, "perp": perp, "onsurface": onsurface, "contours": contours, "profiles": profiles, "fieldpts": fieldpts, "beta": beta, "bpsign": bpsign, "eqinfo": eqinfo, "regions": regions, "meshmeta": meshmeta}
