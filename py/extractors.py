"""In-process extractors run by gridlab's worker after a grid has been generated: eq, mesh -> picklable data."""
import numpy as np


def regions(eq, mesh, spec):
    out = {}
    for rid, r in mesh.regions.items():
        out[rid] = {
            "name": r.name, "nx": r.nx, "ny": r.ny, "ny_noguards": r.ny_noguards,
            "connections": dict(r.connections), "radialIndex": r.radialIndex,
            "psi_vals": np.array(r.psi_vals, dtype=float),
            "yGroupIndex": getattr(r, "yGroupIndex", None),
            "myID": r.myID,
        }
    return out


def meshmeta(eq, mesh, spec):
    return {
        "region_indices": {k: (v[0], v[1]) for k, v in mesh.region_indices.items()} if hasattr(mesh, "region_indices") else None,
        "nx": mesh.nx, "ny": mesh.ny, "ny_noguards": mesh.ny_noguards,
        "x_groups": [[r.myID for r in g] for g in mesh.x_groups],
        "y_groups": [[r.myID for r in g] for g in mesh.y_groups],
    }


EXTRACTORS = {"regions": regions, "meshmeta": meshmeta}
