"""In-process extractors run by gridlab's worker after a grid has been generated: eq, mesh -> picklable data."""
import numpy as np


def regions(eq, mesh, spec):
    out = {}
    for rid, r in mesh.regions.items():
        out[rid] = {
            "name": r.name, "nx": r.nx, "ny": r.ny, "ny_noguards": r.ny_noguards,
            "connections": dict(r.connections), "radialIndex": r.radialIndex,
            "psi_vals": np.array(r.psi_vals, dtype=float),
            "yGroupIndex": getattr(r, "yGroupIndex", None),
            "myID": r.myID,
        }
    return out


def meshmeta(eq, mesh, spec):
    return {
        "region_indices": {k: (v[0], v[1]) for k, v in mesh.region_indices.items()} if hasattr(mesh, "region_indices") else None,
        "nx": mesh.nx, "ny": mesh.ny, "ny_noguards": mesh.ny_noguards,
        "x_groups": [[r.myID for r in g] for g in mesh.x_groups],
        "y_groups": [[r.myID for r in g] for g in mesh.y_groups],
    }


def eqinfo(eq, mesh, spec):
    out = {}
    for k in ("psi_sep", "psi_axis", "psi_bdry", "psi_core", "psi_sol", "psi_sol_inner", "psi_pf_lower", "psi_pf_upper",
              "double_null_type"):
        if hasattr(eq, k):
            v = getattr(eq, k)
            out[k] = [float(x) for x in v] if isinstance(v, (list, tuple)) else (float(v) if isinstance(v, (int, float, np.floating)) else v)
    for k in ("psi_core", "psi_sol", "psi_sol_inner", "psi_pf_lower", "psi_pf_upper", "psinorm_core", "psinorm_sol"):
        try:
            out["opt_" + k] = float(getattr(eq.user_options, k))
        except Exception:
            pass
    if hasattr(eq, "x_points"):
        out["x_points"] = [(float(p.R), float(p.Z)) for p in eq.x_points]
    if hasattr(eq, "o_point"):
        out["o_point"] = (float(eq.o_point.R), float(eq.o_point.Z))
    return out


EXTRACTORS = {"eqinfo": eqinfo, "regions": regions, "meshmeta": meshmeta}
