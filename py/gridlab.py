"""Build real hypnotoad grids in worker subprocesses (from /repo's current working tree), cache the written
file's variables and in-process extras under /verif/.work/grids keyed by (source hash, spec)."""
import hashlib
import io
import json
import os
import pickle
import subprocess
import sys
import time
import traceback
from concurrent.futures import ThreadPoolExecutor

HERE = os.path.dirname(os.path.abspath(__file__))
sys.path.insert(0, HERE)
import vlib  # noqa: E402

SMALL = dict(
    orthogonal=True, finecontour_Nfine=40, nx_core=2, nx_sol=2, ny_inner_divertor=3, ny_outer_divertor=4,
    ny_sol=8, psinorm_core=0.9, psinorm_sol=1.1, y_boundary_guards=1,
)
WALL = [(1.25, -0.45), (1.25, 0.45), (1.75, 0.45), (1.75, -0.45)]


def small(**kw):
    d = dict(SMALL)
    d.update(kw)
    return d


def tokamak_spec(geometry="lsn", options=None, **kw):
    o = small()
    if geometry in ("udn", "ldn", "udn2"):
        o.update(nx_inter_sep=1, psinorm_sol=1.2)
    o.update(options or {})
    s = {"case": "tokamak", "geometry": geometry, "options": o, "fpol": "const", "pressure": None, "wall": WALL,
         "mirror": False, "psi_sign": 1.0, "nxg": 65, "nyg": 65, "extract": []}
    s.update(kw)
    return s


# a wall with a chamfered (exactly 45 degree) corner, a slanted floor section and a slanted roof section, clockwise as given
ODD_WALL = [(1.25, -0.43), (1.25, 0.40), (1.30, 0.45), (1.75, 0.47), (1.75, -0.40), (1.70, -0.45)]


def odd_spec(geometry="lsn", orthogonal=True, options=None, **kw):
    """a grid on which no two options that could be confused coincide: every length, count, range and multiplier differs from its default
    and from its siblings, psi is in other units (x 0.37), the psi array is not square (dR != dZ), profiles are non-trivial, the wall has
    slanted and 45-degree sections, two boundary guard cells, and the whole problem is translated in Z so that Z > max(R) everywhere"""
    o = dict(finecontour_Nfine=40, nx_core=3, nx_pf=3, nx_sol=2, ny_inner_divertor=3, ny_outer_divertor=5, ny_sol=6, ny_inner_sol=4, ny_outer_sol=6,
             ny_inner_lower_divertor=3, ny_outer_lower_divertor=5, ny_inner_upper_divertor=4, ny_outer_upper_divertor=2,
             psinorm_core=0.88, psinorm_sol=1.12, psinorm_pf=0.93, y_boundary_guards=2, N_norm_prefactor=1.3,
             xpoint_poloidal_spacing_length=0.07, target_all_poloidal_spacing_length=0.3, target_outer_lower_poloidal_spacing_length=0.2,
             psi_spacing_separatrix_multiplier=0.7, orthogonal=bool(orthogonal))
    if geometry in ("udn", "ldn", "udn2"):
        o.update(nx_inter_sep=2, psinorm_sol=1.22)
    if not orthogonal:
        o.update(nonorthogonal_xpoint_poloidal_spacing_length=0.6, nonorthogonal_target_all_poloidal_spacing_length=1.4,
                 nonorthogonal_target_inner_lower_poloidal_spacing_length=1.1, nonorthogonal_radial_range_power=1.5,
                 nonorthogonal_xpoint_poloidal_spacing_range=0.03, nonorthogonal_xpoint_poloidal_spacing_range_inner=0.12,
                 nonorthogonal_xpoint_poloidal_spacing_range_outer=0.08, nonorthogonal_target_all_poloidal_spacing_range=0.4,
                 nonorthogonal_target_all_poloidal_spacing_range_inner=0.9, nonorthogonal_target_all_poloidal_spacing_range_outer=1.1)
    o.update(options or {})
    s = {"case": "tokamak", "geometry": geometry, "options": o, "fpol": "linear", "pressure": "parab", "wall": ODD_WALL,
         "mirror": False, "psi_sign": 0.37, "nxg": 65, "nyg": 81, "extract": [], "odd": True, "z_offset": 2.25}
    s.update(kw)
    return s


def circular_spec(options=None, **kw):
    o = dict(number_of_processors=1)
    o.update(options or {})
    s = {"case": "circular", "options": o, "extract": []}
    s.update(kw)
    return s


# ---------------------------------------------------------------------------------------------
# worker side


def make_equilibrium(spec):
    import numpy as np

    if spec["case"] == "circular":
        from hypnotoad.cases.circular import CircularEquilibrium

        return CircularEquilibrium(settings=dict(spec["options"]), nonorthogonal_settings=dict(spec["options"]))
    sys.path.insert(0, os.path.join(vlib.REPO, "examples", "tokamak"))
    import tokamak_example
    from hypnotoad import tokamak

    r1d, z1d, psi2d, psi1d = tokamak_example.create_tokamak(geometry=spec["geometry"], nx=spec["nxg"], ny=spec["nyg"])
    if spec.get("mirror"):
        # reflect in the midplane Z -> -Z (z1d is symmetric about 0)
        psi2d = psi2d[:, ::-1].copy()
    # rigid translation of the whole problem in Z (psi grid and wall): nothing in any property depends on the origin of Z
    zoff = float(spec.get("z_offset", 0.0))
    if zoff:
        z1d = z1d + zoff
    sgn = spec.get("psi_sign", 1.0)
    psi2d = psi2d * sgn
    psi1d = psi1d * sgn
    nf = len(psi1d)
    t = np.linspace(0.0, 1.0, nf)
    fp = spec.get("fpol")
    if fp is None:
        fpol = []
    elif fp == "const":
        fpol = np.full(nf, 2.5)
    elif fp == "linear":
        fpol = 2.5 + 0.8 * t
    elif fp == "negconst":
        fpol = np.full(nf, -2.5)
    else:
        raise ValueError(fp)
    pr = spec.get("pressure")
    pressure = None if pr is None else 1.0e3 * (1.0 - 0.9 * t ** 2)
    wall = spec.get("wall")
    if wall is not None:
        wall = [(float(a), float(b)) for a, b in wall]
        if spec.get("mirror"):
            wall = [(a, -b) for a, b in wall]
        if zoff:
            wall = [(a, b + zoff) for a, b in wall]
    eq = tokamak.TokamakEquilibrium(
        r1d, z1d, psi2d, psi1d, fpol, pressure=pressure, wall=wall,
        settings=dict(spec["options"]), nonorthogonal_settings=dict(spec["options"]),
    )
    return eq


def read_nc(path):
    import numpy as np
    from netCDF4 import Dataset

    out, attrs = {}, {}
    with Dataset(path) as ds:
        for k, v in ds.variables.items():
            a = v[...]
            if hasattr(a, "filled"):
                a = a.filled(np.nan) if a.dtype.kind == "f" else np.asarray(a)
            out[k] = np.array(a)
        for k in ds.ncattrs():
            attrs[k] = ds.getncattr(k)
    return out, attrs


def worker(spec_path, out_path):
    import contextlib
    import warnings

    spec = json.load(open(spec_path))
    t0 = time.time()
    res = {"spec": spec, "error": None}
    try:
        vlib.use_repo()
        import extractors

        log = io.StringIO()
        with warnings.catch_warnings(), contextlib.redirect_stdout(log):
            warnings.simplefilter("ignore")
            from hypnotoad.core.mesh import BoutMesh

            rlog = None
            if spec.get("refinelog"):
                # record which refinement method produced each point (serial builds only: the wrappers live in this process)
                from hypnotoad.core.equilibrium import PsiContour

                rlog = {"counts": {}, "fallback_worst": 0.0, "fallback_points": []}
                for mname in ("refinePointNewton", "refinePointLinesearch", "refinePointIntegrate"):
                    def wrap(orig, mname):
                        def w(self, p, tangent, *, psi, width, atol):
                            out = orig(self, p, tangent, psi=psi, width=width, atol=atol)
                            self._verif_last = mname
                            return out
                        return w
                    setattr(PsiContour, mname, wrap(getattr(PsiContour, mname), mname))
                orig_rp = PsiContour.refinePoint

                def rp(self, p, tangent, *, psi, **kw):
                    self._verif_last = "none/unrefined"
                    out = orig_rp(self, p, tangent, psi=psi, **kw)
                    m = self._verif_last
                    rlog["counts"][m] = rlog["counts"].get(m, 0) + 1
                    if m == "refinePointIntegrate" and self.psival is not None:
                        e = abs(float(psi(out.R, out.Z)) - self.psival)
                        if e > rlog["fallback_worst"]:
                            rlog["fallback_worst"] = e
                        if len(rlog["fallback_points"]) < 20:
                            rlog["fallback_points"].append((float(out.R), float(out.Z), float(self.psival), e))
                    return out

                PsiContour.refinePoint = rp
            # optional history: grids built (and discarded) earlier in the same interpreter
            for hs in spec.get("history", []):
                heq = make_equilibrium(hs)
                hm = BoutMesh(heq, dict(hs["options"]))
                hm.geometry()
                del hm, heq
            eq = make_equilibrium(spec)
            mesh = BoutMesh(eq, dict(spec["options"]))
            # extractors that only need the constructed mesh (contours): their result survives a failing geometry()
            res["early"] = {}
            for name in spec.get("extract_early", []):
                res["early"][name] = extractors.EXTRACTORS[name](eq, mesh, spec)
            if spec.get("redistribute") is not None:
                # the interactive sequence: show the grid, then change non-orthogonal settings step by step
                mesh.calculateRZ()
                res["step_errors"] = []
                for k_, st in enumerate(spec["redistribute"]):
                    st = dict(st)
                    if st.pop("__may_fail__", False):
                        # a step the code is allowed to refuse (an explicit exception): the interactive user carries on with the next one
                        try:
                            mesh.redistributePoints(st)
                            mesh.calculateRZ()
                        except Exception as e_:  # noqa
                            res["step_errors"].append((k_, type(e_).__name__, str(e_)[:200]))
                        continue
                    res["failing_step"] = k_
                    mesh.redistributePoints(st)
                    mesh.calculateRZ()
                res["failing_step"] = "after-sequence"
                res["recorded_nonorthogonal_options"] = {k: (v if isinstance(v, (int, float, str, bool, type(None))) else str(v))
                                                         for k, v in dict(eq.nonorthogonal_options).items()}
                res["region_nonorthogonal_options"] = {name: {k: (v if isinstance(v, (int, float, str, bool, type(None))) else str(v))
                                                              for k, v in dict(r.nonorthogonal_options).items()} for name, r in eq.regions.items()}
            if spec.get("extract_rz"):
                # extractors that need the R-Z positions but not the geometry: their result survives a failing geometry()
                mesh.calculateRZ()
                res["rz"] = {}
                for name in spec["extract_rz"]:
                    res["rz"][name] = extractors.EXTRACTORS[name](eq, mesh, spec)
            mesh.geometry()
            if spec.get("geometry_twice"):
                # the GUI calls geometry() again before every write: the result must not accumulate
                mesh.geometry()
            # other meshes built completely (equilibrium, mesh, geometry) between this mesh's geometry() and its writeGridfile(): what is written
            # must not depend on them
            for hs in spec.get("interleave", []):
                heq = make_equilibrium(hs)
                hm = BoutMesh(heq, dict(hs["options"]))
                hm.geometry()
                del hm, heq
            nc = out_path + ".nc"
            mesh.writeGridfile(nc)
            v, a = read_nc(nc)
            os.remove(nc)
            res["vars"], res["attrs"] = v, a
            if spec.get("write_twice"):
                # writing a grid file must not change the mesh: a second file written from the same mesh holds the same arrays
                mesh.writeGridfile(nc)
                v2, _a2 = read_nc(nc)
                os.remove(nc)
                res["vars2"] = v2
            res["extras"] = {}
            if rlog is not None:
                res["extras"]["refinelog"] = rlog
            for name in spec.get("extract", []):
                res["extras"][name] = extractors.EXTRACTORS[name](eq, mesh, spec)
            del mesh, eq
            import gc

            gc.collect()
    except BaseException as e:  # noqa
        res["error"] = (type(e).__name__, str(e)[:2000], traceback.format_exc()[-4000:])
    res["wall_s"] = time.time() - t0
    with open(out_path + ".tmp", "wb") as fh:
        pickle.dump(res, fh)
    os.replace(out_path + ".tmp", out_path)
    sys.stdout.flush()
    # ParallelMap workers are non-daemon processes that only end when the ParallelMap object is collected; do not let a
    # leftover reference keep this worker alive at interpreter exit
    import multiprocessing

    for c in multiprocessing.active_children():
        c.terminate()
    os._exit(0)


# ---------------------------------------------------------------------------------------------
# client side


_TOOL_HASH = None


def tool_hash():
    """hash of the worker-side code (this file and the extractors): cached results are only reused for the same worker code"""
    global _TOOL_HASH
    if _TOOL_HASH is None:
        h = hashlib.sha256()
        here = os.path.dirname(os.path.abspath(__file__))
        for f in ("gridlab.py", "extractors.py"):
            with open(os.path.join(here, f), "rb") as fh:
                h.update(fh.read())
        _TOOL_HASH = h.hexdigest()[:8]
    return _TOOL_HASH


def spec_key(spec):
    return hashlib.sha256((tool_hash() + json.dumps(spec, sort_keys=True)).encode()).hexdigest()[:20]


def get(specs, nproc=None, timeout=1800, cache=True):
    """Build (or fetch from the cache) the grids for the given specs. Returns a list of result dicts
    (keys: spec, error, vars, attrs, extras, wall_s)."""
    vlib.ensure_dirs()
    sh = vlib.source_hash()
    d = os.path.join(vlib.WORK, "grids", sh)
    os.makedirs(d, exist_ok=True)
    # drop caches of other source versions (disk space)
    base = os.path.join(vlib.WORK, "grids")
    for other in os.listdir(base):
        if other != sh:
            import shutil

            shutil.rmtree(os.path.join(base, other), ignore_errors=True)
    nproc = nproc or min(14, max(1, (os.cpu_count() or 4) - 2))

    def one(spec):
        key = spec_key(spec)
        out = os.path.join(d, key + ".pkl")
        if not (cache and os.path.exists(out)):
            sp = os.path.join(d, key + ".json")
            with open(sp, "w") as fh:
                json.dump(spec, fh)
            env = dict(os.environ)
            env["VERIF_REPO"] = vlib.REPO
            env["OMP_NUM_THREADS"] = "1"
            import signal

            p = subprocess.Popen([sys.executable, os.path.abspath(__file__), "--worker", sp, out],
                                 stdout=subprocess.PIPE, stderr=subprocess.STDOUT, env=env, start_new_session=True)
            try:
                so, _ = p.communicate(timeout=spec.get("timeout", timeout))
                if not os.path.exists(out):
                    return {"spec": spec, "error": ("WorkerCrash", so.decode()[-2000:], ""), "wall_s": 0}
            except subprocess.TimeoutExpired:
                try:
                    os.killpg(p.pid, signal.SIGKILL)
                except ProcessLookupError:
                    pass
                p.wait()
                return {"spec": spec, "error": ("Timeout", "grid generation exceeded %ds" % spec.get("timeout", timeout), ""),
                        "wall_s": timeout}
        with open(out, "rb") as fh:
            return pickle.load(fh)

    # identical specs are built once
    uniq = {}
    for sp in specs:
        uniq.setdefault(spec_key(sp), sp)
    keys = list(uniq)
    with ThreadPoolExecutor(max_workers=nproc) as ex:
        done = dict(zip(keys, ex.map(one, [uniq[k] for k in keys])))
    return [done[spec_key(sp)] for sp in specs]


if __name__ == "__main__":
    if len(sys.argv) == 4 and sys.argv[1] == "--worker":
        worker(sys.argv[2], sys.argv[3])
