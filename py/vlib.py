"""Common machinery for the hypnotoad property checks (see DESIGN.md sections 3, 5, 6).

Every check is   /venv/bin/python py/check.py Cxx --tier quick|thorough [--replay file]
run with cwd=/verif.  Exit codes: 0 held, 1 violation (with a VIOLATION line), 2 infrastructure.
"""
import fcntl
import hashlib
import json
import os
import random
import re
import subprocess
import sys
import time

VERIF = os.path.dirname(os.path.dirname(os.path.abspath(__file__)))
LEAN = os.path.join(VERIF, "lean")
WORK = os.path.join(VERIF, ".work")
EVID = os.path.join(VERIF, "evidence")
REPLAYS = os.path.join(VERIF, "replays")
REPO = os.environ.get("VERIF_REPO", "/repo")
ALLOWED_AXIOMS = {"propext", "Classical.choice", "Quot.sound"}
FORBIDDEN = re.compile(
    r"\bsorry\b|\badmit\b|^\s*axiom\s|native_decide|bv_decide|implemented_by|\bunsafe\s|maxHeartbeats\s+0\b"
)

GLOBAL_TRUSTED = [
    "Lean 4.33 kernel; axioms limited to propext, Classical.choice, Quot.sound (audited by #print axioms on every run)",
    "Mathlib v4.33 definitions of the reals, sqrt/exp/log/sin/cos and HasDerivAt",
    "the py2lean translator / the correspondence harness and lean/Driver.lean (parsing, transport, comparison)",
    "floating point is not modelled: theorems are over R/Q/Z/strings, rounding is bounded only empirically by the correspondence tolerances",
]


def ensure_dirs():
    for d in (WORK, EVID, REPLAYS):
        os.makedirs(d, exist_ok=True)


def seed():
    try:
        return int(os.environ.get("VERIF_SEED", "0"))
    except ValueError:
        return 0


def rng(tag=""):
    return random.Random("%d/%s" % (seed(), tag))


def use_repo():
    """Make `import hypnotoad` resolve to REPO's working tree."""
    if REPO not in sys.path:
        sys.path.insert(0, REPO)
    for m in list(sys.modules):
        if m == "hypnotoad" or m.startswith("hypnotoad."):
            del sys.modules[m]
    import hypnotoad  # noqa: F401

    p = os.path.dirname(os.path.abspath(hypnotoad.__file__))
    if os.path.realpath(p) != os.path.realpath(os.path.join(REPO, "hypnotoad")):
        raise RuntimeError("hypnotoad imported from %s, expected %s" % (p, REPO))


def source_hash(paths=None):
    h = hashlib.sha256()
    root = os.path.join(REPO, "hypnotoad")
    files = []
    for dp, dn, fn in os.walk(root):
        if "__pycache__" in dp or "test_suite" in dp or "/gui" in dp:
            continue
        for f in fn:
            if f.endswith(".py"):
                files.append(os.path.join(dp, f))
    ex = os.path.join(REPO, "examples", "tokamak", "tokamak_example.py")
    if os.path.exists(ex):
        files.append(ex)
    for f in sorted(files):
        if paths is not None and not any(f.endswith(p) for p in paths):
            continue
        h.update(f.encode())
        with open(f, "rb") as fh:
            h.update(fh.read())
    return h.hexdigest()[:16]


class Lock:
    def __init__(self, name):
        ensure_dirs()
        self.path = os.path.join(WORK, name + ".lock")

    def __enter__(self):
        self.fh = open(self.path, "w")
        fcntl.flock(self.fh, fcntl.LOCK_EX)
        return self

    def __exit__(self, *a):
        fcntl.flock(self.fh, fcntl.LOCK_UN)
        self.fh.close()


def run(cmd, cwd=None, inp=None, timeout=3600, env=None):
    """run a command in its own process group; on time-out the whole group is killed (lake/lean leave grandchildren otherwise)"""
    import signal

    e = dict(os.environ)
    if env:
        e.update(env)
    p = subprocess.Popen(cmd, cwd=cwd, stdin=subprocess.PIPE if inp is not None else None, stdout=subprocess.PIPE, stderr=subprocess.STDOUT,
                         env=e, text=True, start_new_session=True)
    try:
        out, _ = p.communicate(inp, timeout=timeout)
    except subprocess.TimeoutExpired:
        try:
            os.killpg(p.pid, signal.SIGKILL)
        except ProcessLookupError:
            pass
        p.wait()
        raise
    return p.returncode, out


# ---------------------------------------------------------------------------------------------
# Lean side


def lean_scan_forbidden(modules):
    """grep the sources of the given modules (and everything under HypnoModel/) for forbidden constructs."""
    hits = []
    for dp, dn, fn in os.walk(os.path.join(LEAN, "HypnoModel")):
        for f in fn:
            if not f.endswith(".lean"):
                continue
            p = os.path.join(dp, f)
            in_block = False
            for i, line in enumerate(open(p, encoding="utf-8"), 1):
                s = line
                # strip comments (line comments and /- -/ blocks, approximately)
                if in_block:
                    if "-/" in s:
                        s = s.split("-/", 1)[1]
                        in_block = False
                    else:
                        continue
                while "/-" in s:
                    a, b = s.split("/-", 1)
                    if "-/" in b:
                        s = a + b.split("-/", 1)[1]
                    else:
                        s = a
                        in_block = True
                        break
                s = s.split("--", 1)[0]
                if FORBIDDEN.search(s):
                    hits.append("%s:%d: %s" % (os.path.relpath(p, LEAN), i, line.strip()))
    return hits


def lean_build(targets, timeout=3000):
    """lake build the given module names. Returns (ok, log)."""
    with Lock("lake"):
        rc, out = run(["lake", "build"] + list(targets), cwd=LEAN, timeout=timeout)
    return rc == 0, out


def lean_audit(module, names, timeout=1200):
    """#print axioms for every name; returns dict name -> (ok, axioms or error text)."""
    ensure_dirs()
    src = "import %s\n" % module + "".join("#print axioms %s\n" % n for n in names)
    path = os.path.join(WORK, "Audit_%s.lean" % module.replace(".", "_"))
    with open(path, "w") as fh:
        fh.write(src)
    rc, out = run(["lake", "env", "lean", path], cwd=LEAN, timeout=timeout)
    res = {}
    # output blocks:  'X' depends on axioms: [a, b]   |  'X' does not depend on any axioms
    text = out.replace("\n ", " ")
    for n in names:
        m = re.search(r"'%s' depends on axioms: \[([^\]]*)\]" % re.escape(n), text)
        if m:
            ax = [a.strip() for a in m.group(1).split(",") if a.strip()]
            res[n] = (set(ax) <= ALLOWED_AXIOMS, ax)
            continue
        if re.search(r"'%s' does not depend on any axioms" % re.escape(n), text):
            res[n] = (True, [])
            continue
        res[n] = (False, ["<not found or error: %s>" % out.strip()[-400:]])
    return res


def lean_checker(modules, timeout=3000):
    rc, out = run(["lake", "env", "leanchecker"] + list(modules), cwd=LEAN, timeout=timeout)
    return rc == 0, out


def lean_driver(lines, timeout=1800):
    """Pipe op lines to the Lean driver, return its output lines."""
    inp = "\n".join(lines) + "\n"
    ok, log = lean_build(["HypnoModel.Drv.All"])
    if not ok:
        raise RuntimeError("driver modules do not build: " + log[-1500:])
    rc, out = run(["lake", "env", "lean", "--run", "Driver.lean"], cwd=LEAN, inp=inp, timeout=timeout)
    if rc != 0:
        raise RuntimeError("Lean driver failed (rc=%d): %s" % (rc, out[-2000:]))
    return out.split("\n")[:-1] if out.endswith("\n") else out.split("\n")


def load_theorems():
    with open(os.path.join(VERIF, "theorems.json")) as fh:
        return json.load(fh)


# ---------------------------------------------------------------------------------------------
# known findings, replays, evidence


def load_known():
    with open(os.path.join(VERIF, "known_findings.json")) as fh:
        return json.load(fh)


def write_replay(pid, payload):
    ensure_dirs()
    blob = json.dumps(payload, sort_keys=True, default=str)
    h = hashlib.sha256(blob.encode()).hexdigest()[:12]
    path = os.path.join(REPLAYS, "%s-%s.json" % (pid, h))
    with open(path, "w") as fh:
        json.dump(payload, fh, indent=1, sort_keys=True, default=str)
    return path


class Result:
    """Accumulates what one check run did; writes the evidence file and decides the exit code."""

    def __init__(self, pid, tier):
        self.pid = pid
        self.tier = tier
        self.t0 = time.time()
        self.obligations = []  # theorem names
        self.discharged = []
        self.proof_failures = []  # (name, why)
        self.checker_cmd = ""
        self.trusted = list(GLOBAL_TRUSTED)
        self.assumptions = []
        self.evaluations = 0
        self.nontrivial = set()
        self.rule = ""
        self.samples = []
        self.extra = {}
        self.violations = []  # (witness-id, payload)
        self.known_hit = []
        self.corr_failures = []  # correspondence disagreements with no implementation-level failing input
        self.traces = 0
        self.gen_error = None

    # --- counting
    def case(self, key=None, nontrivial=False, sample=None):
        self.evaluations += 1
        if nontrivial and key is not None:
            self.nontrivial.add(key if isinstance(key, (str, int, tuple)) else json.dumps(key, sort_keys=True, default=str))
        if sample is not None and len(self.samples) < 6:
            self.samples.append(sample)

    def violation(self, wid, what, payload):
        """A concrete failing input on the implementation. wid identifies the witness for known-findings."""
        self.violations.append((wid, what, payload))

    def broken(self, what, detail):
        """A proof obligation or the correspondence no longer checks and no failing input was found."""
        self.corr_failures.append((what, detail))

    # --- finish
    def finish(self):
        ensure_dirs()
        known = load_known()
        open_k = [k for k in known.get("open", []) if k["property"] == self.pid]
        exit_code = 0
        lines = []
        reported = 0
        seen = set()
        for wid, what, payload in self.violations:
            if wid in seen:
                continue
            seen.add(wid)
            match = [k for k in open_k if k["id"] == wid]
            if match:
                lines.append("KNOWN-FINDING: property=%s %s (%s)" % (self.pid, match[0]["what"], wid))
                self.known_hit.append(wid)
                continue
            path = write_replay(self.pid, {"property": self.pid, "witness": wid, "what": what, "payload": payload,
                                           "replay_cmd": "/venv/bin/python py/check.py %s --replay <this file>" % self.pid})
            lines.append("VIOLATION property=%s replay=%s" % (self.pid, os.path.relpath(path, VERIF)))
            reported += 1
            exit_code = 1
        if reported == 0:
            nf = []
            for name, why in self.proof_failures:
                nf.append({"kind": "proof", "theorem": name, "why": why})
            for what, detail in self.corr_failures:
                nf.append({"kind": "correspondence", "what": what, "detail": detail})
            if nf:
                path = write_replay(self.pid, {"property": self.pid, "no_failing_input_found": True, "broken": nf})
                lines.append("VIOLATION property=%s replay=%s no-failing-input-found" % (self.pid, os.path.relpath(path, VERIF)))
                exit_code = 1
        ev = {
            "property_id": self.pid,
            "tier": self.tier,
            "seed": seed(),
            "level": "proof",
            "coverage": {
                "obligations": max(len(self.obligations), 0),
                "discharged": len(self.discharged),
                "checker_cmd": self.checker_cmd,
                "trusted_base": self.trusted,
                "theorems": self.obligations,
                "undischarged": [n for n, _ in self.proof_failures],
                "evaluations": self.evaluations,
                "distinct_nontrivial": len(self.nontrivial),
                "rule": self.rule,
                "samples": self.samples,
                "traces_validated_against_impl": self.traces,
                "repo_source_hash": source_hash(),
                "known_findings_hit": self.known_hit,
            },
            "assumptions": self.assumptions,
            "wall_s": round(time.time() - self.t0, 2),
            "violations": reported + (1 if exit_code and reported == 0 else 0),
        }
        ev["coverage"].update(self.extra)
        with open(os.path.join(EVID, "%s.json" % self.pid), "w") as fh:
            json.dump(ev, fh, indent=1, default=str)
        for ln in lines:
            print(ln)
        print("%s %s: obligations=%d discharged=%d evaluations=%d nontrivial=%d violations=%d wall=%.1fs" % (
            self.pid, self.tier, len(self.obligations), len(self.discharged), self.evaluations,
            len(self.nontrivial), ev["violations"], ev["wall_s"]))
        return exit_code


def prove(res, pid, thorough=False):
    """Build the property module, audit axioms, scan for forbidden constructs. Fills res."""
    th = load_theorems()[pid]
    module = th["module"]
    names = th["theorems"]
    res.obligations = list(names)
    res.checker_cmd = "cd lean && lake build %s && lake env lean .work/Audit (#print axioms on %d names)" % (module, len(names))
    hits = lean_scan_forbidden([module])
    if hits:
        for n in names:
            res.proof_failures.append((n, "forbidden construct in sources: " + "; ".join(hits[:5])))
        return False
    ok, log = lean_build([module] + th.get("extra_modules", []))
    if not ok:
        err = "\n".join(l for l in log.split("\n") if "error" in l.lower())[:3000]
        res.extra["lean_build_log_tail"] = log[-3000:]
        for n in names:
            res.proof_failures.append((n, "lake build failed: " + err[:600]))
        return False
    aud = lean_audit(module, names)
    allok = True
    for n in names:
        ok1, ax = aud[n]
        if ok1:
            res.discharged.append(n)
        else:
            allok = False
            res.proof_failures.append((n, "axioms/elaboration: %s" % ax))
    res.extra["axioms"] = {n: aud[n][1] for n in names}
    if thorough and allok:
        okc, outc = lean_checker([module])
        res.extra["leanchecker"] = "ok" if okc else outc[-1500:]
        res.checker_cmd += " && lake env leanchecker %s" % module
        if not okc:
            allok = False
            for n in names:
                res.proof_failures.append((n, "leanchecker rejected the module"))
            res.discharged = []
    return allok


def f2hex(x):
    import struct

    return "%016x" % struct.unpack("<Q", struct.pack("<d", float(x)))[0]


def hex2f(s):
    import struct

    return struct.unpack("<d", struct.pack("<Q", int(s, 16)))[0]
