"""Generate lean/HypnoModel/Gen/Spacings.lean from the live source of hypnotoad.core.equilibrium.EquilibriumRegion.getSpacings (C10):
which option each spacing parameter of the LOWER and of the UPPER end of a region is read from, per kind of end (wall / X-point), and
which local each key of the returned dict carries.  The theorem stated over these tables (Props/C10.lean `spacings_*`) is that an end's
parameters depend only on the kind of that end: the upper table is the lower table with `lower` renamed to `upper`, and every returned
key `<name>_<end>` carries the local of the same name.

Recognised shape, anything else raises Unsupported (fail closed):

    if self.kind.split(".")[0] == "wall":   <name>_lower = <expr> ...
    elif self.kind.split(".")[0] == "X":    <name>_lower = <expr> ...
    else: raise ...
    (the same with [1] and _upper)
    return {"<key>": <local>, ...}
"""
import ast
import os
import sys

sys.path.insert(0, os.path.dirname(os.path.dirname(os.path.abspath(__file__))))
from gen.common import write_if_changed, HEADER, py2lean, vlib  # noqa: E402
from gen.gen_pipeline import class_method  # noqa: E402

SRC = "hypnotoad/core/equilibrium.py"


def norm(e):
    return ast.unparse(e).replace("\n", " ").replace('"', "'")


def branch_table(stmts, suffix):
    out = []
    for st in stmts:
        if not (isinstance(st, ast.Assign) and len(st.targets) == 1 and isinstance(st.targets[0], ast.Name)):
            raise py2lean.Unsupported("getSpacings statement: " + ast.unparse(st)[:80])
        name = st.targets[0].id
        if not name.endswith("_" + suffix) and ("_" + suffix + "_") not in name:
            raise py2lean.Unsupported("getSpacings assigns %s in the %s block" % (name, suffix))
        out.append((name, norm(st.value)))
    return out


def side(st, idx, suffix):
    """If/elif/else over self.kind.split('.')[idx]"""
    tabs = {}
    cur = st
    while True:
        if not isinstance(cur, ast.If):
            raise py2lean.Unsupported("getSpacings: expected if/elif chain")
        t = ast.unparse(cur.test).replace(" ", "").replace('"', "'")
        ok = False
        for kind in ("wall", "X"):
            if t == "self.kind.split('.')[%d]=='%s'" % (idx, kind):
                if kind in tabs:
                    raise py2lean.Unsupported("getSpacings: kind %s twice" % kind)
                tabs[kind] = branch_table(cur.body, suffix)
                ok = True
        if not ok:
            raise py2lean.Unsupported("getSpacings test: " + t[:80])
        if len(cur.orelse) == 1 and isinstance(cur.orelse[0], ast.If):
            cur = cur.orelse[0]
            continue
        if len(cur.orelse) == 1 and isinstance(cur.orelse[0], ast.Raise):
            break
        raise py2lean.Unsupported("getSpacings: else branch is not a raise")
    if set(tabs) != {"wall", "X"}:
        raise py2lean.Unsupported("getSpacings: kinds " + str(sorted(tabs)))
    return tabs


def generate(repo=None):
    repo = repo or vlib.REPO
    tree = ast.parse(open(os.path.join(repo, SRC)).read())
    fn = class_method(tree, "EquilibriumRegion", "getSpacings")
    body = [s for s in fn.body if not (isinstance(s, ast.Expr) and isinstance(s.value, ast.Constant))]
    if len(body) != 3 or not isinstance(body[2], ast.Return) or not isinstance(body[2].value, ast.Dict):
        raise py2lean.Unsupported("getSpacings: expected two if-chains and a return of a dict literal")
    lower = side(body[0], 0, "lower")
    upper = side(body[1], 1, "upper")
    ret = []
    for k, v in zip(body[2].value.keys, body[2].value.values):
        if not (isinstance(k, ast.Constant) and isinstance(k.value, str) and isinstance(v, ast.Name)):
            raise py2lean.Unsupported("getSpacings return entry: " + ast.unparse(k)[:60])
        ret.append((k.value, v.id))
    return {"lower": lower, "upper": upper, "ret": ret}


def stem(name, end):
    """`monotonic_d_lower` -> `monotonic_d_@`, `nonorthogonal_range_lower_inner` -> `nonorthogonal_range_@_inner`"""
    parts = name.split("_")
    if parts.count(end) != 1:
        raise py2lean.Unsupported("local %s does not name its end (%s) exactly once" % (name, end))
    return "_".join("@" if p == end else p for p in parts)


def ret_entry(key, local):
    ek = "lower" if "lower" in key.split("_") else "upper" if "upper" in key.split("_") else None
    el = "lower" if "lower" in local.split("_") else "upper" if "upper" in local.split("_") else None
    if ek is None or el is None:
        raise py2lean.Unsupported("returned entry %s: %s names no end" % (key, local))
    return (stem(key, ek), ek, stem(local, el), el)


def emit(d):
    L = [HEADER % ("gen_spacings.py", SRC + " :: EquilibriumRegion.getSpacings"), "", "namespace Gen.Spacings", "",
         "/-! locals are written with `@` in place of the end they belong to (`monotonic_d_@` for `monotonic_d_lower` / `monotonic_d_upper`) -/", ""]

    def lst(a):
        return "[\n    %s]" % ",\n    ".join("(%s)" % ", ".join('"%s"' % t for t in x) for x in a)

    d = {"lower": {k: [(stem(n, "lower"), e) for n, e in v] for k, v in d["lower"].items()},
         "upper": {k: [(stem(n, "upper"), e) for n, e in v] for k, v in d["upper"].items()},
         "ret": [ret_entry(k, v) for k, v in d["ret"]]}

    for end in ("lower", "upper"):
        for kind in ("wall", "X"):
            L += ["/-- the %s end is a%s: (local, expression it is assigned) in source order -/" % (end, " wall (target)" if kind == "wall" else "n X-point"),
                  "def %s%s : List (String × String) :=\n  %s" % (end, kind.capitalize(), lst(d[end][kind])), ""]
    L += ["/-- the returned dict: (key with `@` for its end, end named by the key, local with `@` for its end, end named by the local) -/",
          "def returned : List (String × String × String × String) :=\n  %s" % lst(d["ret"]), "", "end Gen.Spacings", ""]
    return "\n".join(L)


def main(repo=None):
    d = generate(repo)
    path = os.path.join(vlib.LEAN, "HypnoModel", "Gen", "Spacings.lean")
    return write_if_changed(path, emit(d))


if __name__ == "__main__":
    print("changed" if main() else "unchanged")
    d = generate()
    for k, v in d.items():
        print(k, v)
