"""Generate lean/HypnoModel/Gen/PolSpacing.lean from EquilibriumRegion.getMonotonicPoloidalDistanceFunc,
getSqrtPoloidalDistanceFunc and getLinearPoloidalDistanceFunc (C10)."""
import os
import sys

sys.path.insert(0, os.path.dirname(os.path.dirname(os.path.abspath(__file__))))
from gen.common import write_if_changed, HEADER, py2lean, vlib, path_conditions, fold  # noqa: E402
from gen.gen_spacing import T, pull_root  # noqa: E402

SRC = "hypnotoad/core/equilibrium.py"


def paths_of(repo, qual):
    fn = py2lean.parse_function(os.path.join(repo, SRC), qual)
    tr = T()
    return tr.block(fn.body, {}, [])


def sqrt_name(facts, guard_txt):
    bl, bu = facts.get("b_lower"), facts.get("b_upper")
    if bl and bu:
        return "sqrtNone"
    if bl:
        return "sqrtUpperOnly"
    if bu:
        return "sqrtLowerOnly"
    a0 = "(a_lower = (0 : ℝ))" in guard_txt and "(¬ (a_lower = (0 : ℝ)))" not in guard_txt
    b0 = "(a_upper = (0 : ℝ))" in guard_txt and "(¬ (a_upper = (0 : ℝ)))" not in guard_txt
    return {(True, True): "sqrtBoth00", (True, False): "sqrtBoth0b", (False, True): "sqrtBotha0", (False, False): "sqrtBothab"}[(a0, b0)]


def generate(repo=None):
    repo = repo or vlib.REPO
    out = {}
    # --- sqrt family
    for conds, kind, payload in paths_of(repo, "EquilibriumRegion.getSqrtPoloidalDistanceFunc"):
        pc = path_conditions(conds)
        if pc is None or kind == "raise":
            continue
        facts, simp = pc
        # a_X = None is the same as a_X = 0 when b_X is given: keep only the general path (the harness passes 0.0)
        if (facts.get("b_lower") is False and facts.get("a_lower") is True) or (facts.get("b_upper") is False and facts.get("a_upper") is True):
            continue
        if kind != "return":
            raise py2lean.Unsupported("sqrt: unexpected path end %s %s" % (kind, payload if kind == "unsupported" else ""))
        gtxt = " ∧ ".join(py2lean.pr(c, "R") for c in simp)
        name = sqrt_name(facts, gtxt)
        if name in out:
            raise py2lean.Unsupported("two paths map to %s" % name)
        lam = fold(payload)
        params = ["length", "N", "N_norm"] + [p for p in ("b_lower", "a_lower", "b_upper", "a_upper") if facts.get(p) is False]
        fv = py2lean.free_vars(lam)
        bad = [v for v in fv if v not in params + ["opt_sfunc_checktol"]]
        if bad:
            raise py2lean.Unsupported("free variables %s in %s" % (bad, name))
        gparams = params + (["opt_sfunc_checktol"] if "opt_sfunc_checktol" in gtxt else [])
        out[name] = {"params": params, "gparams": gparams, "lam": lam, "guard": simp, "root": False, "constraint": None}
    # --- monotonic family
    for conds, kind, payload in paths_of(repo, "EquilibriumRegion.getMonotonicPoloidalDistanceFunc"):
        pc = path_conditions(conds)
        if pc is None or kind == "raise":
            continue
        facts, simp = pc
        if kind != "return":
            raise py2lean.Unsupported("monotonic: unexpected path end %s" % kind)
        found = []
        lam = fold(pull_root(payload, found))
        guard = [fold(pull_root(c, found)) for c in simp]
        name = "monoConcave" if found else "monoConvex"
        if name in out:
            raise py2lean.Unsupported("two paths map to %s" % name)
        params = ["length", "N", "N_norm", "d_lower", "d_upper"]
        out[name] = {"params": params, "gparams": params + (["root"] if found else []), "lam": lam, "guard": guard,
                     "root": bool(found), "constraint": fold(found[0]) if found else None}
    # --- linear
    ps = paths_of(repo, "EquilibriumRegion.getLinearPoloidalDistanceFunc")
    if len(ps) != 1 or ps[0][1] != "return":
        raise py2lean.Unsupported("linear: not a single return")
    out["linear"] = {"params": ["length", "N"], "gparams": ["length", "N"], "lam": fold(ps[0][2]), "guard": [], "root": False,
                     "constraint": None}
    expected = {"sqrtNone", "sqrtUpperOnly", "sqrtLowerOnly", "sqrtBoth00", "sqrtBoth0b", "sqrtBotha0", "sqrtBothab", "monoConcave",
                "monoConvex", "linear"}
    if set(out) != expected:
        raise py2lean.Unsupported("paths found %s, expected %s" % (sorted(out), sorted(expected)))
    return out


def emit(out):
    L = [HEADER % ("gen_polspacing.py", SRC + " :: EquilibriumRegion.get{Sqrt,Monotonic,Linear}PoloidalDistanceFunc"),
         "import Mathlib.Analysis.SpecialFunctions.Sqrt", "import Mathlib.Analysis.SpecialFunctions.Log.Basic",
         "import Mathlib.Analysis.SpecialFunctions.Exp", "", "open Real", ""]
    for mode, ns, ty, nc in (("R", "Gen.R.PolSpacing", "ℝ", "noncomputable "), ("F", "Gen.F.PolSpacing", "Float", "")):
        L.append("namespace %s" % ns)
        L.append("")
        for name in sorted(out):
            d = out[name]
            ps = " ".join(d["params"])
            rootp = " (root : %s)" % ty if d["root"] else ""
            lam = d["lam"]
            L.append("/-- path `%s` -/" % name)
            L.append("%sdef %s (%s : %s)%s (%s : %s) : %s :=\n  %s" % (nc, name, ps, ty, rootp, " ".join(lam[1]), ty, ty, py2lean.pr(lam[2], mode)))
            if mode == "R":
                gtxt = " ∧ ".join(py2lean.pr(c, "R") for c in d["guard"]) if d["guard"] else "True"
                L.append("/-- the conditions under which the code takes path `%s` and none of its checks raises -/" % name)
                L.append("def %s_guard (%s : ℝ) : Prop :=\n  %s" % (name, " ".join(d["gparams"]), gtxt))
            if d["constraint"] is not None:
                c = d["constraint"]
                L.append("/-- the equation handed to brentq on path `%s` -/" % name)
                L.append("%sdef %s_constraint (%s : %s) (%s : %s) : %s :=\n  %s" % (nc, name, ps, ty, c[1][0], ty, ty, py2lean.pr(c[2], mode)))
            L.append("")
        L.append("end %s" % ns)
        L.append("")
    return "\n".join(L)


def main():
    out = generate()
    return write_if_changed(os.path.join(vlib.LEAN, "HypnoModel", "Gen", "PolSpacing.lean"), emit(out))


if __name__ == "__main__":
    vlib.ensure_dirs()
    print("changed" if main() else "unchanged")
