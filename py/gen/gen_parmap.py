"""Generate lean/HypnoModel/Gen/ParMapQ.lean from the live source of hypnotoad.utils.parallel_map.ParallelMap (C13):
* which constructors the task queue and the result queue are made with (`multiprocessing.Queue()` has a feeder thread: `put` never blocks;
  `multiprocessing.SimpleQueue()` writes synchronously into an OS pipe of bounded capacity),
* the order of the two phases of `__call__`: every task is put before any result is read.
Fail closed: anything but two plain constructor calls without arguments and the put-loop / get-loop order raises Unsupported."""
import ast
import os
import sys

sys.path.insert(0, os.path.dirname(os.path.dirname(os.path.abspath(__file__))))
from gen.common import write_if_changed, HEADER, py2lean, vlib  # noqa: E402
from gen.gen_pipeline import class_method  # noqa: E402

SRC = "hypnotoad/utils/parallel_map.py"


def generate(repo=None):
    repo = repo or vlib.REPO
    tree = ast.parse(open(os.path.join(repo, SRC)).read())
    init = class_method(tree, "ParallelMap", "__init__")
    ctors = {}
    for n in ast.walk(init):
        if isinstance(n, ast.Assign) and len(n.targets) == 1 and isinstance(n.targets[0], ast.Attribute) and isinstance(n.targets[0].value, ast.Name) \
                and n.targets[0].value.id == "self" and n.targets[0].attr in ("task_queue", "result_queue"):
            v = n.value
            if not (isinstance(v, ast.Call) and not v.args and not v.keywords):
                raise py2lean.Unsupported("queue constructed as " + ast.unparse(v)[:80])
            if n.targets[0].attr in ctors:
                raise py2lean.Unsupported("%s assigned twice" % n.targets[0].attr)
            ctors[n.targets[0].attr] = ast.unparse(v.func)
    if set(ctors) != {"task_queue", "result_queue"}:
        raise py2lean.Unsupported("queues found: " + str(sorted(ctors)))
    call = class_method(tree, "ParallelMap", "__call__")
    events = []
    for n in ast.walk(call):
        if isinstance(n, ast.Call) and isinstance(n.func, ast.Attribute) and n.func.attr in ("put", "get") and isinstance(n.func.value, ast.Attribute) \
                and n.func.value.attr in ("task_queue", "result_queue"):
            events.append((n.lineno, "%s.%s" % (n.func.value.attr, n.func.attr)))
    events.sort()
    order = [e for _, e in events]
    if order != ["task_queue.put", "result_queue.get"]:
        raise py2lean.Unsupported("__call__ uses the queues as " + str(order))
    # both must sit in loops, the put loop entirely before the get loop
    loops = [n for n in call.body if isinstance(n, (ast.For, ast.While))]
    def has(loop, what):
        return any(isinstance(m, ast.Call) and isinstance(m.func, ast.Attribute) and m.func.attr == what.split(".")[1]
                   and isinstance(m.func.value, ast.Attribute) and m.func.value.attr == what.split(".")[0] for m in ast.walk(loop))
    putl = [k for k, lp in enumerate(loops) if has(lp, "task_queue.put")]
    getl = [k for k, lp in enumerate(loops) if has(lp, "result_queue.get")]
    if len(putl) != 1 or len(getl) != 1 or not putl[0] < getl[0]:
        # the loops may be nested in an if/else of __call__ (np == 1 branch): search one level down
        for st in call.body:
            if isinstance(st, ast.If):
                for blk in (st.body, st.orelse):
                    lp2 = [n for n in blk if isinstance(n, (ast.For, ast.While))]
                    p2 = [k for k, lp in enumerate(lp2) if has(lp, "task_queue.put")]
                    g2 = [k for k, lp in enumerate(lp2) if has(lp, "result_queue.get")]
                    if len(p2) == 1 and len(g2) == 1 and p2[0] < g2[0]:
                        putl, getl = p2, g2
        if len(putl) != 1 or len(getl) != 1 or not putl[0] < getl[0]:
            raise py2lean.Unsupported("__call__: put loop / get loop structure not recognised")
    return {"task": ctors["task_queue"], "result": ctors["result_queue"], "phases": "put-all-then-get-all"}


def emit(d):
    L = [HEADER % ("gen_parmap.py", SRC + " :: ParallelMap.__init__, __call__"), "", "namespace Gen.ParMapQ", "",
         "/-- constructor of `self.task_queue` -/", 'def taskQueueCtor : String := "%s"' % d["task"], "",
         "/-- constructor of `self.result_queue` -/", 'def resultQueueCtor : String := "%s"' % d["result"], "",
         "/-- `__call__` puts every task into the task queue before it reads the first result -/", 'def callPhases : String := "%s"' % d["phases"], "",
         "end Gen.ParMapQ", ""]
    return "\n".join(L)


def main(repo=None):
    d = generate(repo)
    path = os.path.join(vlib.LEAN, "HypnoModel", "Gen", "ParMapQ.lean")
    return write_if_changed(path, emit(d))


if __name__ == "__main__":
    print("changed" if main() else "unchanged", generate())
