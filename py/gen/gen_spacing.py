"""Generate lean/HypnoModel/Gen/Spacing.lean from Equilibrium.getSmoothMonotonicGridFunc (C09)."""
import json
import os
import sys

sys.path.insert(0, os.path.dirname(os.path.dirname(os.path.abspath(__file__))))
from gen.common import simplify, write_if_changed, HEADER, py2lean, vlib  # noqa: E402

SRC = "hypnotoad/core/equilibrium.py"
QUAL = "Equilibrium.getSmoothMonotonicGridFunc"
ARGS = ["n", "lower", "upper", "grad_lower", "grad_upper"]


class T(py2lean.Translator):
    def __init__(self):
        super().__init__(externals=("erf", "sici"))
        self.constraint = None

    def expr(self, node, env):
        import ast

        if isinstance(node, ast.Call) and isinstance(node.func, ast.Name) and node.func.id == "brentq":
            c = self.expr(node.args[0], env)
            if c[0] != "lam" or len(c[1]) != 1:
                raise py2lean.Unsupported("brentq target is not a one-argument function")
            # the root is a parameter of the model; its defining equation is emitted as <path>_constraint
            return ("rootof", c)
        return super().expr(node, env)


def pull_root(e, found):
    """replace ("rootof", lam) by the variable `root`, collecting the constraint"""
    t = e[0]
    if t == "rootof":
        found.append(e[1])
        return ("var", "root")
    if t in ("num", "var", "none", "isnone"):
        return e
    if t == "bin":
        return ("bin", e[1], pull_root(e[2], found), pull_root(e[3], found))
    if t in ("neg", "not"):
        return (t, pull_root(e[1], found))
    if t == "pow":
        return ("pow", pull_root(e[1], found), e[2])
    if t == "call":
        return ("call", e[1], [pull_root(a, found) for a in e[2]])
    if t == "cmp":
        return ("cmp", e[1], pull_root(e[2], found), pull_root(e[3], found))
    if t in ("and", "or"):
        return (t, [pull_root(a, found) for a in e[1]])
    if t == "lam":
        return ("lam", e[1], pull_root(e[2], found))
    if t == "ifexp":
        return ("ifexp",) + tuple(pull_root(a, found) for a in e[1:])
    if t == "tupleidx":
        return ("tupleidx", pull_root(e[1], found), e[2])
    raise py2lean.Unsupported("pull_root " + t)


# py2lean.subst / free_vars must know the extra node
_orig_subst, _orig_fv = py2lean.subst, py2lean.free_vars


def _subst(e, m):
    if e[0] == "rootof":
        return ("rootof", _subst(e[1], m))
    return _orig_subst(e, m)


py2lean.subst = _subst


def path_name(facts, size_cond_positive):
    gl, gu = facts.get("grad_lower"), facts.get("grad_upper")
    if gl and gu:
        return "linear"
    if gu:  # only grad_lower given
        return "lowerPoly" if size_cond_positive else "lowerErf"
    if gl:
        return "upperPoly" if size_cond_positive else "upperErf"
    return "bothTrig" if size_cond_positive else "bothSici"


def generate(repo=None):
    repo = repo or vlib.REPO
    fn = py2lean.parse_function(os.path.join(repo, SRC), QUAL)
    tr = T()
    paths = tr.block(fn.body, {}, [])
    out_defs = {}
    table = []
    for conds, kind, payload in paths:
        facts, rest = py2lean.none_facts(conds)
        # partial evaluation under the None-facts, to a fixpoint (a simplified conjunct may itself be a None-fact)
        while True:
            simp = []
            grew = False
            for c in conds:
                r = simplify(c, facts)
                if r is True:
                    continue
                if r is False:
                    simp = None
                    break
                if r[0] == "isnone" and r[1] not in facts:
                    facts[r[1]] = True
                    grew = True
                elif r[0] == "not" and r[1][0] == "isnone" and r[1][1] not in facts:
                    facts[r[1][1]] = False
                    grew = True
                simp.append(r)
            if simp is None or not grew:
                break
        if simp is None:
            continue  # infeasible
        if kind == "raise":
            table.append({"kind": "raise", "facts": facts, "guard": [py2lean.pr(c, "R") for c in simp]})
            continue
        if kind != "return" or payload[0] != "lam":
            raise py2lean.Unsupported("unexpected path end %s" % kind)
        # the size comparison is the last non-sign guard; sign guards come from the two raise checks
        size = [c for c in simp if "abs" in py2lean.pr(c, "R")]
        sign = [c for c in simp if c not in size]
        positive = (len(size) == 0) or (size[-1][0] != "not")
        name = path_name(facts, positive)
        if name in out_defs:
            raise py2lean.Unsupported("two paths map to %s" % name)
        found = []
        lam = pull_root(payload, found)
        guard = [pull_root(c, found) for c in size]
        params = [a for a in ARGS if not facts.get(a, False)]
        used = py2lean.free_vars(lam)
        ext = [v for v in ("erf", "sici") if ("ext_" + v) in repr(lam) + repr(found)]
        if any(u not in params + ["root", "pi"] for u in used):
            raise py2lean.Unsupported("free variables %s in path %s" % (used, name))
        out_defs[name] = {"params": params, "root": "root" in used, "ext": ext, "lam": lam, "guard": guard, "sign": sign,
                          "constraint": found[0] if found else None}
        table.append({"kind": "return", "name": name, "facts": facts, "guard": [py2lean.pr(c, "R") for c in guard]})
    expected = {"linear", "lowerPoly", "lowerErf", "upperPoly", "upperErf", "bothTrig", "bothSici"}
    if set(out_defs) != expected:
        raise py2lean.Unsupported("paths found %s, expected %s" % (sorted(out_defs), sorted(expected)))
    return out_defs, table


def emit(out_defs):
    L = [HEADER % ("gen_spacing.py", SRC + " :: " + QUAL),
         "import Mathlib.Analysis.SpecialFunctions.Trigonometric.Basic", "import Mathlib.Analysis.SpecialFunctions.Sqrt", "",
         "open Real", ""]
    for mode, ns, ty, nc in (("R", "Gen.R.Spacing", "ℝ", "noncomputable "), ("F", "Gen.F.Spacing", "Float", "")):
        L.append("namespace %s" % ns)
        L.append("")
        for name in sorted(out_defs):
            d = out_defs[name]
            ps = " ".join(d["params"])
            extp = ""
            for e in d["ext"]:
                extp += " (erf : %s → %s)" % (ty, ty) if e == "erf" else " (sici : %s → %s × %s)" % (ty, ty, ty)
            rootp = " (root : %s)" % ty if d["root"] else ""
            body = d["lam"]
            L.append("/-- path `%s` of getSmoothMonotonicGridFunc -/" % name)
            L.append("%sdef %s%s (%s : %s)%s (%s : %s) : %s :=\n  %s" % (
                nc, name, extp, ps, ty, rootp, " ".join(body[1]), ty, ty, py2lean.pr(body[2], mode)))
            if mode == "R":
                g = d["guard"]
                gtxt = " ∧ ".join(py2lean.pr(c, "R") for c in g) if g else "True"
                L.append("/-- branch condition under which the code takes path `%s` -/" % name)
                L.append("def %s_guard (%s : ℝ) : Prop :=\n  %s" % (name, ps, gtxt))
                s = d["sign"]
                stxt = " ∧ ".join(py2lean.pr(c, "R") for c in s) if s else "True"
                L.append("/-- the sign checks that did not raise -/")
                L.append("def %s_signs (%s : ℝ) : Prop :=\n  %s" % (name, ps, stxt))
            if d["constraint"] is not None:
                c = d["constraint"]
                L.append("/-- the equation handed to brentq on path `%s`: `root` is a zero of this function -/" % name)
                L.append("%sdef %s_constraint%s (%s : %s) (%s : %s) : %s :=\n  %s" % (
                    nc, name, extp, ps, ty, c[1][0], ty, ty, py2lean.pr(c[2], mode)))
            L.append("")
        L.append("end %s" % ns)
        L.append("")
    return "\n".join(L)


def main():
    out_defs, table = generate()
    text = emit(out_defs)
    changed = write_if_changed(os.path.join(vlib.LEAN, "HypnoModel", "Gen", "Spacing.lean"), text)
    with open(os.path.join(vlib.WORK, "gen_spacing_paths.json"), "w") as fh:
        json.dump(table, fh, indent=1, default=str)
    return changed


if __name__ == "__main__":
    vlib.ensure_dirs()
    print("changed" if main() else "unchanged")
