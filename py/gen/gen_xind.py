"""Generate lean/HypnoModel/Gen/XInd.lean from the live source of hypnotoad.core.mesh.MeshRegion.globalXInd (C08):
the radial index, relative to the separatrix, that a MeshRegion gives to its contour with local index i.  Two radially adjacent regions
share a contour; the non-orthogonal point placement weights depend on this index, so both regions must give the shared contour the same one.

Recognised shape, anything else raises Unsupported (fail closed):

    if self.radialIndex >= self.equilibriumRegion.separatrix_radial_index:
        return i + sum(2 * n for n in self.equilibriumRegion.nx[<a> : <b>])
    else:
        return i - sum(2 * n for n in self.equilibriumRegion.nx[<c> : <d>])

with <a>..<d> each one of `self.radialIndex`, `self.equilibriumRegion.separatrix_radial_index` and no slice step."""
import ast
import os
import sys

sys.path.insert(0, os.path.dirname(os.path.dirname(os.path.abspath(__file__))))
from gen.common import write_if_changed, HEADER, py2lean, vlib  # noqa: E402
from gen.gen_pipeline import class_method  # noqa: E402

SRC = "hypnotoad/core/mesh.py"
NAMES = {"self.radialIndex": "r", "self.equilibriumRegion.separatrix_radial_index": "sep"}


def branch(ret):
    """return i (+|-) sum(2 * n for n in self.equilibriumRegion.nx[a:b]) -> (sign, a, b)"""
    if not (isinstance(ret, ast.Return) and isinstance(ret.value, ast.BinOp) and isinstance(ret.value.op, (ast.Add, ast.Sub))
            and isinstance(ret.value.left, ast.Name) and ret.value.left.id == "i"):
        raise py2lean.Unsupported("globalXInd branch: " + ast.unparse(ret)[:80])
    call = ret.value.right
    if not (isinstance(call, ast.Call) and isinstance(call.func, ast.Name) and call.func.id == "sum" and len(call.args) == 1
            and isinstance(call.args[0], ast.GeneratorExp) and len(call.args[0].generators) == 1):
        raise py2lean.Unsupported("globalXInd: not a sum over a generator")
    ge = call.args[0]
    gen = ge.generators[0]
    if ast.unparse(ge.elt).replace(" ", "") != "2*n" or ast.unparse(gen.target) != "n" or gen.ifs:
        raise py2lean.Unsupported("globalXInd summand: " + ast.unparse(ge.elt))
    it = gen.iter
    if not (isinstance(it, ast.Subscript) and ast.unparse(it.value) == "self.equilibriumRegion.nx" and isinstance(it.slice, ast.Slice)):
        raise py2lean.Unsupported("globalXInd iterates over " + ast.unparse(it)[:60])
    if it.slice.step is not None:
        raise py2lean.Unsupported("globalXInd: slice with a step: " + ast.unparse(it)[:80])
    lo, hi = ast.unparse(it.slice.lower), ast.unparse(it.slice.upper)
    if lo not in NAMES or hi not in NAMES:
        raise py2lean.Unsupported("globalXInd slice bounds: %s, %s" % (lo, hi))
    return ("+" if isinstance(ret.value.op, ast.Add) else "-", NAMES[lo], NAMES[hi])


def generate(repo=None):
    repo = repo or vlib.REPO
    tree = ast.parse(open(os.path.join(repo, SRC)).read())
    fn = class_method(tree, "MeshRegion", "globalXInd")
    body = [s for s in fn.body if not (isinstance(s, ast.Expr) and isinstance(s.value, ast.Constant))]
    if len(body) != 1 or not isinstance(body[0], ast.If) or len(body[0].body) != 1 or len(body[0].orelse) != 1:
        raise py2lean.Unsupported("globalXInd: expected one if/else")
    t = ast.unparse(body[0].test).replace(" ", "")
    if t != "self.radialIndex>=self.equilibriumRegion.separatrix_radial_index":
        raise py2lean.Unsupported("globalXInd test: " + t)
    return {"outside": branch(body[0].body[0]), "inside": branch(body[0].orelse[0])}


def emit(d):
    def expr(b):
        sign, lo, hi = b
        return "i %s 2 * (((nx.take %s).drop %s).sum : Int)" % (sign, hi, lo)

    L = [HEADER % ("gen_xind.py", SRC + " :: MeshRegion.globalXInd"), "", "namespace Gen.XInd", "",
         "/-- `globalXInd(i)` of the MeshRegion with radial index `r`; `nx` = cells per radial segment, `sep` = separatrix_radial_index.",
         "A python slice `nx[a:b]` of a list is `(nx.take b).drop a`. -/",
         "def globalXInd (nx : List Nat) (sep r : Nat) (i : Int) : Int :=",
         "  if r ≥ sep then %s else %s" % (expr(d["outside"]), expr(d["inside"])), "", "end Gen.XInd", ""]
    return "\n".join(L)


def main(repo=None):
    d = generate(repo)
    path = os.path.join(vlib.LEAN, "HypnoModel", "Gen", "XInd.lean")
    return write_if_changed(path, emit(d))


if __name__ == "__main__":
    print("changed" if main() else "unchanged", generate())
