"""Generate lean/HypnoModel/Gen/Pipeline.lean from the live source of hypnotoad.core.mesh (C01, C04):
* the ordered list of operations that write or modify the points of `self.contours` in MeshRegion.__init__,
  addPointAtWallToContours and distributePointsNonorthogonal (what the on-surface invariant is an induction over);
* the slicing pattern of MeshRegion.fillRZ (which contour/point parities feed centre, xlow, ylow, corners) and the four X-point
  corner substitutions;
* the orientation logic of MeshRegion.__init__ (when temp_psi_vals is reversed, when the followed lines are reversed back).
Fail closed: any statement touching the contours that the extractor does not recognise raises Unsupported."""
import ast
import os
import sys

sys.path.insert(0, os.path.dirname(os.path.dirname(os.path.abspath(__file__))))
from gen.common import write_if_changed, HEADER, py2lean, vlib  # noqa: E402

SRC = "hypnotoad/core/mesh.py"
CONTOUR_MUTATORS = {"replace": "replacePoint", "insert": "insertPoint", "append": "appendPoint", "prepend": "prependPoint",
                    "regrid": "regrid", "refine": "refineOne"}
CONTOUR_NAMES = {"contour", "c"}


def class_method(tree, cls, name):
    for n in tree.body:
        if isinstance(n, ast.ClassDef) and n.name == cls:
            for m in n.body:
                if isinstance(m, ast.FunctionDef) and m.name == name:
                    return m
    raise py2lean.Unsupported("no %s.%s" % (cls, name))


def is_self_contours(e):
    return isinstance(e, ast.Attribute) and e.attr == "contours" and isinstance(e.value, ast.Name) and e.value.id == "self"


def mentions_self_contours(node):
    return any(is_self_contours(n) for n in ast.walk(node))


def pmap_func(call):
    """self.parallel_map(F, ...) -> name of F"""
    if (isinstance(call, ast.Call) and isinstance(call.func, ast.Attribute) and call.func.attr == "parallel_map"
            and isinstance(call.func.value, ast.Name) and call.func.value.id == "self" and call.args):
        return ast.unparse(call.args[0])
    return None


class Extract:
    def __init__(self, tree):
        self.tree = tree
        self.aliases = {}  # local name -> parallel_map function whose results it holds

    def ops_of(self, fn, depth=0):
        out = []
        self.walk(fn.body, out, depth, cond=None)
        return out

    def walk(self, stmts, out, depth, cond):
        for st in stmts:
            self.stmt(st, out, depth, cond)

    def stmt(self, st, out, depth, cond):
        if isinstance(st, (ast.FunctionDef, ast.Return, ast.Pass, ast.Raise)):
            if isinstance(st, ast.FunctionDef) and st.name == "correct_sfunc_orthogonal_and_set_startInd":
                return  # only sets startInd / resets caches: no point is written (checked below)
            if isinstance(st, ast.FunctionDef):
                for n in ast.walk(st):
                    if isinstance(n, ast.Call) and isinstance(n.func, ast.Attribute) and n.func.attr in CONTOUR_MUTATORS and \
                            isinstance(n.func.value, ast.Name) and n.func.value.id in CONTOUR_NAMES:
                        raise py2lean.Unsupported("nested function %s mutates a contour" % st.name)
            return
        if isinstance(st, ast.If):
            t = ast.unparse(st.test)
            if t == "not self.user_options.orthogonal":
                self.walk(st.body, out, depth, "nonorth")
                if st.orelse:
                    raise py2lean.Unsupported("else branch of orthogonal switch")
                return
            self.walk(st.body, out, depth, cond)
            self.walk(st.orelse, out, depth, cond)
            return
        if isinstance(st, (ast.For, ast.While)):
            self.walk(st.body, out, depth, cond)
            return
        if isinstance(st, ast.Assign) and len(st.targets) == 1:
            tg, val = st.targets[0], st.value
            f = pmap_func(val)
            if is_self_contours(tg):
                if f is not None:
                    out.append(("assignMap", f, cond))
                elif isinstance(val, ast.List) and not val.elts:
                    out.append(("clear", "", cond))
                elif isinstance(val, ast.ListComp) and isinstance(val.generators[0].iter, ast.Name) and val.generators[0].iter.id in self.aliases:
                    out.append(("assignMap", self.aliases[val.generators[0].iter.id], cond))
                else:
                    raise py2lean.Unsupported("assignment to self.contours: " + ast.unparse(st)[:80])
                return
            if f is not None and isinstance(tg, ast.Name):
                self.aliases[tg.id] = f
                return
            if f is not None:
                out.append(("discardMap", f, cond))
            return
        if isinstance(st, ast.Expr) and isinstance(st.value, ast.Call):
            call = st.value
            f = pmap_func(call)
            if f is not None:
                # result of a map over the contours thrown away: with worker processes the mapped function acts on copies
                out.append(("discardMap", f, cond))
                return
            fn = call.func
            if isinstance(fn, ast.Attribute):
                if isinstance(fn.value, ast.Name) and fn.value.id == "self" and fn.attr in ("addPointAtWallToContours", "distributePointsNonorthogonal"):
                    if depth > 2:
                        raise py2lean.Unsupported("recursion")
                    out.extend((k, a, cond or c) for k, a, c in Extract(self.tree).ops_of(class_method(self.tree, "MeshRegion", fn.attr), depth + 1))
                    return
                if fn.attr == "append" and is_self_contours(fn.value):
                    out.append(("build", "", cond))
                    return
                if fn.attr == "append" and isinstance(fn.value, ast.Subscript) and is_self_contours(fn.value.value):
                    out.append(("build", "", cond))
                    return
                if fn.attr in CONTOUR_MUTATORS and isinstance(fn.value, ast.Name) and fn.value.id in CONTOUR_NAMES:
                    kind = CONTOUR_MUTATORS[fn.attr]
                    if kind == "regrid":
                        kw = {k.arg: ast.unparse(k.value) for k in call.keywords}
                        kind = "regridNoRefine" if kw.get("refine") == "False" else "regridRefine"
                    out.append((kind, "", cond))
                    return
            return
        if isinstance(st, (ast.AugAssign, ast.AnnAssign, ast.Expr, ast.Assign, ast.Try, ast.With, ast.Assert, ast.Delete)):
            if isinstance(st, ast.Assign) and any(mentions_self_contours(t) for t in st.targets):
                raise py2lean.Unsupported("write through self.contours: " + ast.unparse(st)[:80])
            return
        raise py2lean.Unsupported("statement " + type(st).__name__)


def slicing(tree):
    """fillRZ: location -> (contour parity, point parity); parity 1 = [1::2], 0 = [0::2]; and the pinned corners"""
    fn = class_method(tree, "MeshRegion", "fillRZ")
    par = {}
    pins = []
    for st in fn.body:
        if isinstance(st, ast.Assign) and isinstance(st.targets[0], ast.Attribute) and isinstance(st.targets[0].value, ast.Attribute):
            loc, arr = st.targets[0].attr, st.targets[0].value.attr
            if arr not in ("Rxy", "Zxy") or loc not in ("centre", "xlow", "ylow", "corners"):
                continue
            src = ast.unparse(st.value).replace(" ", "")
            comp = "R" if arr == "Rxy" else "Z"
            found = None
            for cp in (0, 1):
                for pp in (0, 1):
                    if src == "numpy.array([[p.%sforpincontour[%d::2]]forcontourinself.contours[%d::2]])" % (comp, pp, cp):
                        found = (cp, pp)
            if found is None:
                raise py2lean.Unsupported("fillRZ slicing for %s.%s: %s" % (arr, loc, src[:90]))
            if par.setdefault(loc, found) != found:
                raise py2lean.Unsupported("R and Z sliced differently at " + loc)
        elif isinstance(st, ast.If):
            # if xpoint is not None: self.Rxy.corners[a, b] = xpoint.R ; self.Zxy.corners[a, b] = xpoint.Z
            for s2 in st.body:
                t = s2.targets[0]
                idx = ast.unparse(t.slice).replace(" ", "")
                pins.append((idx, ast.unparse(t.value), ast.unparse(s2.value)))
    # which xPointsAt{Start,End}[radialIndex(+1)] feeds which pin: the assignment just before each `if`
    srcs = []
    for st in fn.body:
        if isinstance(st, ast.Assign) and isinstance(st.targets[0], ast.Name) and st.targets[0].id == "xpoint":
            srcs.append(ast.unparse(st.value).replace(" ", ""))
    pinmap = {}
    groups = [pins[i:i + 2] for i in range(0, len(pins), 2)]
    if len(groups) != len(srcs):
        raise py2lean.Unsupported("X-point corner substitutions not in the expected form")
    for g, s in zip(groups, srcs):
        (i1, a1, v1), (i2, a2, v2) = g
        if i1 != i2 or {a1, a2} != {"self.Rxy.corners", "self.Zxy.corners"} or {v1, v2} != {"xpoint.R", "xpoint.Z"} or \
                (a1 == "self.Rxy.corners") != (v1 == "xpoint.R"):
            raise py2lean.Unsupported("X-point corner substitution " + str(g))
        key = {"self.equilibriumRegion.xPointsAtStart[self.radialIndex]": "startInner",
               "self.equilibriumRegion.xPointsAtStart[self.radialIndex+1]": "startOuter",
               "self.equilibriumRegion.xPointsAtEnd[self.radialIndex]": "endInner",
               "self.equilibriumRegion.xPointsAtEnd[self.radialIndex+1]": "endOuter"}.get(s)
        if key is None:
            raise py2lean.Unsupported("X-point source " + s)
        pinmap[key] = i1
    return par, pinmap


def orientation(tree):
    """(test that reverses psi_vals before following, test that reverses the followed lines back)"""
    fn = class_method(tree, "MeshRegion", "__init__")
    t1 = t2 = None
    for st in ast.walk(fn):
        if isinstance(st, ast.If):
            body = ast.unparse(st.body[0]).replace(" ", "") if st.body else ""
            if body.startswith("temp_psi_vals=self.psi_vals[::-1]"):
                if ast.unparse(st.orelse[0]).replace(" ", "") != "temp_psi_vals=self.psi_vals":
                    raise py2lean.Unsupported("temp_psi_vals else branch")
                t1 = ast.unparse(st.test).replace(" ", "")
            if body.startswith("forperp_pointsinperp_points_list:") and "perp_points.reverse()" in body:
                t2 = ast.unparse(st.test).replace(" ", "")
    if t1 is None or t2 is None:
        raise py2lean.Unsupported("orientation tests not found")
    return t1, t2


TESTS = {"self.radialIndex<self.equilibriumRegion.separatrix_radial_index": "radialIndex < sepIndex"}


def rz_boundary(tree):
    """MeshRegion.getRZBoundary: the guard (as a Boolean function of `has an upper neighbour`, `that neighbour is this region itself`)
    and the list of copies (array, location, target index, source index) made under it"""
    fn = class_method(tree, "MeshRegion", "getRZBoundary")
    ifs = [st for st in fn.body if isinstance(st, ast.If)]
    others = [st for st in fn.body if not isinstance(st, (ast.If, ast.Expr))]
    if len(ifs) != 1 or others or ifs[0].orelse:
        raise py2lean.Unsupported("getRZBoundary is not a single guarded block")

    def guard(e):
        t = ast.unparse(e).replace(" ", "").replace('"', "'")
        if t == "self.connections['upper']isnotNone":
            return "hasUpper"
        if t in ("upisnotself", "self.getNeighbour('upper')isnotself"):
            return "(!upperIsSelf)"
        if t in ("upisnotNone",):
            return "hasUpper"
        if isinstance(e, ast.BoolOp) and isinstance(e.op, ast.And):
            return "(" + " && ".join(guard(v) for v in e.values) + ")"
        raise py2lean.Unsupported("getRZBoundary guard: " + t)

    g = guard(ifs[0].test)
    copies = []
    for st in ifs[0].body:
        if isinstance(st, ast.Assign) and isinstance(st.targets[0], ast.Name) and st.targets[0].id == "up":
            if ast.unparse(st.value).replace('"', "'") != "self.getNeighbour('upper')":
                raise py2lean.Unsupported("getRZBoundary: up = " + ast.unparse(st.value))
            continue
        if isinstance(st, ast.If):
            # a nested guard: fold it into the outer one
            g = "(" + g + " && " + guard(st.test) + ")"
            body = st.body
        else:
            body = [st]
        for b in body:
            if isinstance(b, ast.Assign) and isinstance(b.targets[0], ast.Name) and b.targets[0].id == "up":
                continue
            m = __import__("re").fullmatch(r"self\.(Rxy|Zxy)\.(ylow|corners)\[:,(-?\d+)\]=up\.(Rxy|Zxy)\.(ylow|corners)\[:,(-?\d+)\]", ast.unparse(b).replace(" ", ""))
            if not m or m.group(1) != m.group(4) or m.group(2) != m.group(5):
                raise py2lean.Unsupported("getRZBoundary statement: " + ast.unparse(b)[:80])
            copies.append((m.group(1), m.group(2), int(m.group(3)), int(m.group(6))))
    return g, copies


def generate(repo=None):
    repo = repo or vlib.REPO
    tree = ast.parse(open(os.path.join(repo, SRC)).read())
    init = Extract(tree).ops_of(class_method(tree, "MeshRegion", "__init__"))
    regrid = Extract(tree).ops_of(class_method(tree, "MeshRegion", "distributePointsNonorthogonal"))
    par, pins = slicing(tree)
    t1, t2 = orientation(tree)
    for t in (t1, t2):
        if t not in TESTS:
            raise py2lean.Unsupported("orientation test not translatable: " + t)
    rzg, rzc = rz_boundary(tree)
    return {"init": init, "regrid": regrid, "par": par, "pins": pins, "t1": TESTS[t1], "t2": TESTS[t2], "rzg": rzg, "rzc": rzc}


def emit(d):
    L = [HEADER % ("gen_pipeline.py", SRC + " :: MeshRegion.__init__, addPointAtWallToContours, distributePointsNonorthogonal, fillRZ"), ""]
    L += ["namespace Gen.Pipeline", "",
          "/-- an operation on the contours of a MeshRegion, in source order. `assignMap f`: `self.contours = self.parallel_map(f, …)`;",
          "`discardMap f`: the same map with its result thrown away (acts on copies when worker processes are used). -/",
          "inductive Op", "  | clear | build | assignMap (f : String) | discardMap (f : String)",
          "  | replacePoint | insertPoint | appendPoint | prependPoint | regridNoRefine | regridRefine | refineOne",
          "  deriving DecidableEq, Repr", ""]

    def op(o):
        k, a, _ = o
        return ".%s%s" % (k, (' "%s"' % a) if k in ("assignMap", "discardMap") else "")

    L += ["/-- MeshRegion.__init__ on an orthogonal grid -/", "def initOrthogonal : List Op :=\n  [%s]" % ", ".join(op(o) for o in d["init"] if o[2] is None), "",
          "/-- MeshRegion.__init__ on a non-orthogonal grid (with addPointAtWallToContours and distributePointsNonorthogonal spliced in) -/",
          "def initNonorthogonal : List Op :=\n  [%s]" % ", ".join(op(o) for o in d["init"]), "",
          "/-- one MeshRegion.distributePointsNonorthogonal call (Mesh.redistributePoints) -/",
          "def redistribute : List Op :=\n  [%s]" % ", ".join(op(o) for o in d["regrid"]), ""]
    L += ["/-- fillRZ: (contour parity, point parity) per location; 1 = `[1::2]`, 0 = `[0::2]` -/"]
    for loc in ("centre", "xlow", "ylow", "corners"):
        L.append("def %sParity : Nat × Nat := (%d, %d)" % (loc, d["par"][loc][0], d["par"][loc][1]))
    L += ["", "/-- fillRZ: which corner (python index pair into the corners array) each X-point slot replaces -/"]
    for k in ("startInner", "startOuter", "endInner", "endOuter"):
        a, b = d["pins"][k].strip("()").split(",")
        L.append("def pin_%s : Int × Int := (%s, %s)" % (k, a, b))
    L += ["", "/-- MeshRegion.__init__: psi_vals are followed in reverse iff this holds … -/",
          "def reverseBefore (radialIndex sepIndex : Nat) : Bool := decide (%s)" % d["t1"],
          "/-- … and the followed lines are reversed back iff this holds -/",
          "def reverseAfter (radialIndex sepIndex : Nat) : Bool := decide (%s)" % d["t2"], "",
          "/-- MeshRegion.getRZBoundary: whether the upper edge of a region is overwritten with the lower edge of its upper neighbour, given",
          "whether it has an upper neighbour and whether that neighbour is the region itself (the periodic core of a single null) -/",
          "def rzCopyGuard (hasUpper upperIsSelf : Bool) : Bool := %s" % d["rzg"],
          "/-- … and the copies made: (array, location, target python index in y, source python index in y) -/",
          "def rzCopies : List (String × String × Int × Int) :=\n  [%s]" % ", ".join('("%s", "%s", %d, %d)' % c for c in d["rzc"]),
          "", "end Gen.Pipeline", ""]
    return "\n".join(L)


def main(repo=None):
    d = generate(repo)
    path = os.path.join(vlib.LEAN, "HypnoModel", "Gen", "Pipeline.lean")
    return write_if_changed(path, emit(d))


if __name__ == "__main__":
    ch, d = main(), generate()
    print("changed" if ch else "unchanged")
    for k in ("init", "regrid"):
        print(k, d[k])
    print(d["par"], d["pins"], d["t1"], d["t2"])
