"""Generate lean/HypnoModel/Gen/Critical.lean from the live discriminant block of hypnotoad.utils.critical.find_critical (C19):
the ±2-cell stencil for d2psi/dR2, d2psi/dZ2, d2psi/dRdZ and D = fxx*fyy - fxy^2 that classifies O- and X-points."""
import ast
import os
import sys

sys.path.insert(0, os.path.dirname(os.path.dirname(os.path.abspath(__file__))))
from gen.common import write_if_changed, HEADER, py2lean, vlib, fold  # noqa: E402

SRC = "hypnotoad/utils/critical.py"


class T(py2lean.Translator):
    def expr(self, node, env):
        if isinstance(node, ast.Subscript) and isinstance(node.value, ast.Name) and node.value.id == "psi":
            idx = node.slice.elts if isinstance(node.slice, ast.Tuple) else None
            if idx is None or len(idx) != 2:
                raise py2lean.Unsupported("psi subscript")

            def off(e, base):
                if isinstance(e, ast.Name) and e.id == base:
                    return 0
                if isinstance(e, ast.BinOp) and isinstance(e.left, ast.Name) and e.left.id == base and isinstance(e.right, ast.Constant):
                    return e.right.value if isinstance(e.op, ast.Add) else -e.right.value
                raise py2lean.Unsupported("psi index")

            a, b = off(idx[0], "i"), off(idx[1], "j")
            return ("var", "p_%s%d_%s%d" % ("m" if a < 0 else "p", abs(a), "m" if b < 0 else "p", abs(b)))
        if isinstance(node, ast.Subscript) and isinstance(node.value, ast.Name) and node.value.id in ("R", "Z"):
            idx = node.slice.elts if isinstance(node.slice, ast.Tuple) else [node.slice]
            parts = []
            for e in idx:
                try:
                    v = int(ast.literal_eval(e))
                except Exception:
                    raise py2lean.Unsupported("non-constant index into %s" % node.value.id)
                parts.append(("m%d" % -v) if v < 0 else str(v))
            return ("var", "%s_%s" % (node.value.id, "_".join(parts)))
        return super().expr(node, env)


def live_assignments(stmts, out):
    """assignments in source order, following only the live branch of `if True:` / `if False:` and descending into loops"""
    for st in stmts:
        if isinstance(st, ast.If):
            if isinstance(st.test, ast.Constant):
                live_assignments(st.body if st.test.value else st.orelse, out)
            else:
                live_assignments(st.body, out)
                live_assignments(st.orelse, out)
        elif isinstance(st, (ast.For, ast.While)):
            live_assignments(st.body, out)
        elif isinstance(st, ast.Assign) and len(st.targets) == 1 and isinstance(st.targets[0], ast.Name):
            out.append(st)


def generate(repo=None):
    repo = repo or vlib.REPO
    fn = py2lean.parse_function(os.path.join(repo, SRC), "find_critical")
    assigns = []
    live_assignments(fn.body, assigns)
    tr = T()
    env = {}
    want = ("dR", "dZ", "d2dr2", "d2dz2", "d2drdz", "D")
    for st in assigns:
        name = st.targets[0].id
        if name in want:
            env[name] = tr.expr(st.value, env)
    if "D" not in env:
        raise py2lean.Unsupported("no live assignment to D found")
    # dR, dZ are grid spacings: keep them as parameters
    env2 = {}
    tr2 = T()
    for st in assigns:
        name = st.targets[0].id
        if name in ("d2dr2", "d2dz2", "d2drdz", "D"):
            env2[name] = tr2.expr(st.value, {k: v for k, v in env2.items()})
    out = {k: fold(env2[k]) for k in ("d2dr2", "d2dz2", "d2drdz", "D")}
    # the point the O-points are ranked against: Rmid, Zmid as functions of corner values of the R, Z arrays (indices kept in the names)
    tr3 = T()
    for st in assigns:
        name = st.targets[0].id
        if name in ("Rmid", "Zmid"):
            out[name] = fold(tr3.expr(st.value, {}))
    for name in ("Rmid", "Zmid"):
        if name not in out:
            raise py2lean.Unsupported("no live assignment to %s found" % name)
    return out


def emit(d):
    L = [HEADER % ("gen_critical.py", SRC + " :: find_critical (live discriminant block)"), "import Mathlib.Data.Real.Basic", ""]
    for mode, ns, ty, nc in (("R", "Gen.R.Critical", "ℝ", "noncomputable "), ("F", "Gen.F.Critical", "Float", "")):
        L += ["namespace %s" % ns, ""]
        for k in ("d2dr2", "d2dz2", "d2drdz", "D"):
            fv = sorted(py2lean.free_vars(d[k]))
            L.append("/-- `%s` of the classification stencil; p_<a>_<b> = psi[i+a, j+b] (m = minus, p = plus) -/" % k)
            L.append("%sdef %s (%s : %s) : %s :=\n  %s" % (nc, k, " ".join(fv), ty, ty, py2lean.pr(d[k], mode)))
        for k in ("Rmid", "Zmid"):
            fv = sorted(py2lean.free_vars(d[k]))
            L.append("/-- `%s`: the point the O-points are ranked against; %s_<i>_<j> = %s[i, j] of the (nR, nZ) coordinate array (m = minus) -/" % (k, k[0], k[0]))
            L.append("%sdef %s (%s : %s) : %s :=\n  %s" % (nc, k, " ".join(fv), ty, ty, py2lean.pr(d[k], mode)))
            if mode == "R":
                idx = [tuple((-int(t[1:]) if t.startswith("m") else int(t)) for t in v.split("_")[1:]) for v in fv]
                L.append("/-- the array entries `%s` reads, in the order of its arguments -/" % k)
                L.append("def %s_entries : List (Int × Int) := [%s]" % (k, ", ".join("(%d, %d)" % t for t in idx)))
        L += ["", "end %s" % ns, ""]
    return "\n".join(L)


def main():
    return write_if_changed(os.path.join(vlib.LEAN, "HypnoModel", "Gen", "Critical.lean"), emit(generate()))


if __name__ == "__main__":
    vlib.ensure_dirs()
    print("changed" if main() else "unchanged")
