"""Generate lean/HypnoModel/Gen/Tokamak.lean from the live source of hypnotoad.cases.tokamak.TokamakEquilibrium (C09, C19):
* describeSingleNull / describeDoubleNull: every radial segment written as a dict literal (`nx`, `psi_start`, `psi_end`, `grad_start`,
  `grad_end` as source expressions) and the history of assignments to the name(s) used as separatrix gradient;
* findLegs: the test that decides which traced leg is the inner one, the action taken, the returned labelling, and every other statement
  that assigns or re-orders `leg_points` / `leg_lines` (anything but initialisation and `append` is refused).
Fail closed: shapes that are not recognised raise Unsupported."""
import ast
import os
import re
import sys

sys.path.insert(0, os.path.dirname(os.path.dirname(os.path.abspath(__file__))))
from gen.common import write_if_changed, HEADER, py2lean, vlib  # noqa: E402
from gen.gen_pipeline import class_method  # noqa: E402

SRC = "hypnotoad/cases/tokamak.py"
SEG_KEYS = ("nx", "psi_start", "psi_end", "grad_start", "grad_end", "psi_vals")


def u(e):
    return ast.unparse(e).replace("\n", " ").replace('"', "'")


def segments_of(fn):
    parents = {}
    for n in ast.walk(fn):
        for c in ast.iter_child_nodes(n):
            parents[c] = n
    segs = []
    for n in ast.walk(fn):
        if isinstance(n, ast.Dict) and any(isinstance(k, ast.Constant) and k.value == "nx" for k in n.keys):
            p = parents[n]
            if isinstance(p, ast.Dict):
                label = p.keys[p.values.index(n)].value
            elif isinstance(p, ast.Assign) and isinstance(p.targets[0], ast.Subscript) and isinstance(p.targets[0].slice, ast.Constant):
                label = p.targets[0].slice.value
            else:
                raise py2lean.Unsupported("segment dict in an unrecognised position, line %d" % n.lineno)
            ent = []
            for k, v in zip(n.keys, n.values):
                if not (isinstance(k, ast.Constant) and k.value in SEG_KEYS):
                    raise py2lean.Unsupported("segment %s has the key %s" % (label, u(k)))
                ent.append((k.value, u(v)))
            segs.append((n.lineno, label, ent))
    segs.sort()
    grads = sorted({v for _, _, ent in segs for k, v in ent if k in ("grad_start", "grad_end")})
    for g in grads:
        if not re.fullmatch(r"[A-Za-z_][A-Za-z_0-9]*", g):
            raise py2lean.Unsupported("separatrix gradient is not a plain name: " + g)
    hist = []
    for n in ast.walk(fn):
        if isinstance(n, ast.Assign) and len(n.targets) == 1 and isinstance(n.targets[0], ast.Name) and n.targets[0].id in grads:
            hist.append((n.lineno, n.targets[0].id, "=", u(n.value)))
        if isinstance(n, ast.AugAssign) and isinstance(n.target, ast.Name) and n.target.id in grads:
            hist.append((n.lineno, n.target.id, {ast.Mult: "*=", ast.Add: "+=", ast.Sub: "-=", ast.Div: "/="}.get(type(n.op), "?="), u(n.value)))
    hist.sort()
    return [(l, e) for _, l, e in segs], [(a, b, c) for _, a, b, c in hist]


def legs_of(fn):
    test = action = ret = None
    others = []
    for n in ast.walk(fn):
        tgt = None
        if isinstance(n, ast.Assign) and len(n.targets) == 1 and isinstance(n.targets[0], ast.Name) and n.targets[0].id in ("leg_points", "leg_lines"):
            tgt = n.targets[0].id
            others.append("%s = %s" % (tgt, u(n.value)))
        if isinstance(n, ast.Expr) and isinstance(n.value, ast.Call) and isinstance(n.value.func, ast.Attribute) \
                and isinstance(n.value.func.value, ast.Name) and n.value.func.value.id in ("leg_points", "leg_lines"):
            others.append("%s.%s(…)" % (n.value.func.value.id, n.value.func.attr))
        if isinstance(n, ast.If) and "leg_lines" in u(n.test):
            if test is not None or n.orelse or len(n.body) != 1:
                raise py2lean.Unsupported("findLegs: more than one test on leg_lines")
            test, action = u(n.test).replace(" ", ""), u(n.body[0]).replace(" ", "")
    if isinstance(fn.body[-1], ast.Return) and fn.body[-1].value is not None:
        ret = u(fn.body[-1].value).replace(" ", "")
    allowed = {"leg_points = []", "leg_lines = []", "leg_points.append(…)", "leg_lines.append(…)", "leg_lines = leg_lines[::-1]"}
    for o in others:
        if o not in allowed:
            raise py2lean.Unsupported("findLegs re-orders or rebuilds the legs: " + o)
    m = re.fullmatch(r"leg_lines\[(\d)\]\[-1\]\.R([<>]=?)leg_lines\[(\d)\]\[-1\]\.R", test or "")
    if not m or action != "leg_lines=leg_lines[::-1]":
        raise py2lean.Unsupported("findLegs: labelling test %r / action %r" % (test, action))
    if ret != "{'inner':leg_lines[0],'outer':leg_lines[1]}":
        raise py2lean.Unsupported("findLegs returns " + str(ret))
    return (int(m.group(1)), m.group(2), int(m.group(3)))


def generate(repo=None):
    repo = repo or vlib.REPO
    tree = ast.parse(open(os.path.join(repo, SRC)).read())
    sn = segments_of(class_method(tree, "TokamakEquilibrium", "describeSingleNull"))
    dn = segments_of(class_method(tree, "TokamakEquilibrium", "describeDoubleNull"))
    legs = legs_of(class_method(tree, "TokamakEquilibrium", "findLegs"))
    return {"sn": sn, "dn": dn, "legs": legs}


def q(sv):
    return '"%s"' % sv.replace("\\", "\\\\")


def emit(d):
    L = [HEADER % ("gen_tokamak.py", SRC + " :: describeSingleNull, describeDoubleNull, findLegs"), "", "namespace Gen.Tokamak", ""]
    for tag, name in (("sn", "SingleNull"), ("dn", "DoubleNull")):
        segs, hist = d[tag]
        L += ["/-- describe%s: the radial segments written as dict literals, in source order: (name, [(key, expression)]) -/" % name,
              "def segments%s : List (String × List (String × String)) :=\n  [%s]" % (
                  name, ",\n   ".join("(%s, [%s])" % (q(l), ", ".join("(%s, %s)" % (q(k), q(v)) for k, v in e)) for l, e in segs)), "",
              "/-- describe%s: every assignment to a name used as `grad_start` / `grad_end`: (name, operator, right-hand side) -/" % name,
              "def gradHistory%s : List (String × String × String) :=\n  [%s]" % (name, ",\n   ".join("(%s, %s, %s)" % (q(a), q(b), q(c)) for a, b, c in hist)), ""]
    i, op, j = d["legs"]
    lean_op = {">": ">", "<": "<", ">=": "≥", "<=": "≤"}[op]
    L += ["/-- findLegs: the two traced legs are exchanged iff this holds of the major radii of their last points (the strike points);",
          "`strike k` is `leg_lines[k][-1].R`; afterwards `inner = leg_lines[0]`, `outer = leg_lines[1]` -/",
          "def legsSwap (strike : Nat → Rat) : Bool := decide (strike %d %s strike %d)" % (i, lean_op, j), "",
          "end Gen.Tokamak", ""]
    return "\n".join(L)


def main(repo=None):
    d = generate(repo)
    path = os.path.join(vlib.LEAN, "HypnoModel", "Gen", "Tokamak.lean")
    return write_if_changed(path, emit(d))


if __name__ == "__main__":
    print("changed" if main() else "unchanged")
    d = generate()
    print(d["legs"], d["sn"][1], d["dn"][1])
