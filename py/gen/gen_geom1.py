"""Generate lean/HypnoModel/Gen/Geom1.lean from the field lines of MeshRegion.geometry1 (C03): the assignments to
self.Bpxy, self.Btxy, self.Bxy (and the sign flip `self.Bpxy = -self.Bpxy`), as formulas of Brxy, Bzxy, fpol(psi), Rxy."""
import ast
import os
import sys

sys.path.insert(0, os.path.dirname(os.path.dirname(os.path.abspath(__file__))))
from gen.common import write_if_changed, HEADER, py2lean, vlib, fold  # noqa: E402

SRC = "hypnotoad/core/mesh.py"
SELF = {"Brxy": "Br", "Bzxy": "Bz", "Rxy": "R", "psixy": "psi", "Bpxy": "Bp", "Btxy": "Bt"}


class T(py2lean.Translator):
    def expr(self, node, env):
        if isinstance(node, ast.Attribute) and isinstance(node.value, ast.Name) and node.value.id == "self":
            return ("var", SELF.get(node.attr, "self_" + node.attr))
        if isinstance(node, ast.Call):
            f = node.func
            if isinstance(f, ast.Attribute) and isinstance(f.value, ast.Attribute) and f.value.attr == "equilibrium" and f.attr == "fpol":
                if len(node.args) != 1 or ast.unparse(node.args[0]) != "self.psixy":
                    raise py2lean.Unsupported("fpol is not evaluated at self.psixy")
                return ("var", "fpol_psi")
        return super().expr(node, env)


def generate(repo=None):
    repo = repo or vlib.REPO
    tree = ast.parse(open(os.path.join(repo, SRC)).read())
    fn = None
    for n in tree.body:
        if isinstance(n, ast.ClassDef) and n.name == "MeshRegion":
            for m in n.body:
                if isinstance(m, ast.FunctionDef) and m.name == "geometry1":
                    fn = m
    if fn is None:
        raise py2lean.Unsupported("no MeshRegion.geometry1")
    found = {}
    flips = []
    tr = T()
    for st in ast.walk(fn):
        if isinstance(st, ast.Assign) and len(st.targets) == 1 and isinstance(st.targets[0], ast.Attribute) and \
                isinstance(st.targets[0].value, ast.Name) and st.targets[0].value.id == "self" and st.targets[0].attr in ("Bpxy", "Btxy", "Bxy"):
            name = st.targets[0].attr
            e = fold(tr.expr(st.value, {}))
            if name == "Bpxy" and ast.unparse(st.value).replace(" ", "") == "-self.Bpxy":
                flips.append(e)
                continue
            if name in found:
                raise py2lean.Unsupported("two assignments to self.%s in geometry1" % name)
            found[name] = e
    for k in ("Bpxy", "Btxy", "Bxy"):
        if k not in found:
            raise py2lean.Unsupported("no assignment to self.%s in geometry1" % k)
    if len(flips) != 1:
        raise py2lean.Unsupported("expected exactly one sign flip of self.Bpxy, found %d" % len(flips))
    return found


def emit(d):
    L = [HEADER % ("gen_geom1.py", SRC + " :: MeshRegion.geometry1 (field lines)"), "import Mathlib.Analysis.SpecialFunctions.Sqrt", ""]
    for mode, ns, ty, nc in (("R", "Gen.R.Geom1", "ℝ", "noncomputable "), ("F", "Gen.F.Geom1", "Float", "")):
        L += ["namespace %s" % ns, ""]
        for k, doc in (("Bpxy", "|Bp| before the sign is applied"), ("Btxy", "toroidal field; fpol_psi = fpol(psixy)"), ("Bxy", "|B| (Bp is the signed poloidal field)")):
            fv = sorted(py2lean.free_vars(d[k]))
            L.append("/-- `self.%s` of geometry1: %s -/" % (k, doc))
            L.append("%sdef %s (%s : %s) : %s :=\n  %s" % (nc, k, " ".join(fv), ty, ty, py2lean.pr(d[k], mode)))
        L += ["", "end %s" % ns, ""]
    return "\n".join(L)


def main():
    return write_if_changed(os.path.join(vlib.LEAN, "HypnoModel", "Gen", "Geom1.lean"), emit(generate()))


if __name__ == "__main__":
    vlib.ensure_dirs()
    print("changed" if main() else "unchanged")
