"""Generate lean/HypnoModel/Gen/Contour.lean from the live source of hypnotoad.core.equilibrium.PsiContour.temporaryExtend (C11):
the index bookkeeping done after each `self.prepend(...)` in the `extend_lower` loop and after each `self.append(...)` in the
`extend_upper` loop — the conditional adjustments of `startInd` / `endInd` that keep them pointing at the same points (the target
points placed by addPointAtWallToContours) while temporary guard points are added.

Recognised shape, anything else raises Unsupported (fail closed):

    if extend_lower > 0:
        ...                                   # ds
        for i in range(extend_lower):
            ...                               # new_point, no statement touching self.points / startInd / endInd
            if notInRange(new_point): break
            self.prepend(<expr>)
            if self.<field> <cmp> 0: self.<field> += <int>      # zero or more, only after the prepend
    if extend_upper > 0:                      # the same with self.append
"""
import ast
import os
import sys

sys.path.insert(0, os.path.dirname(os.path.dirname(os.path.abspath(__file__))))
from gen.common import write_if_changed, HEADER, py2lean, vlib  # noqa: E402
from gen.gen_pipeline import class_method  # noqa: E402

SRC = "hypnotoad/core/equilibrium.py"
FIELDS = {"startInd", "endInd"}
CMPS = {ast.GtE: "ge", ast.Lt: "lt", ast.Gt: "gt", ast.LtE: "le"}


def touches_state(node):
    for n in ast.walk(node):
        if isinstance(n, ast.Attribute) and isinstance(n.value, ast.Name) and n.value.id == "self":
            if n.attr in FIELDS and isinstance(n.ctx, ast.Store):
                return True
            if n.attr in ("_startInd", "_endInd", "points") and isinstance(n.ctx, ast.Store):
                return True
        if isinstance(n, ast.Call) and isinstance(n.func, ast.Attribute) and isinstance(n.func.value, ast.Name) and n.func.value.id == "self" \
                and n.func.attr in ("prepend", "append", "insert", "replace", "insertFindPosition", "setSelfToContour"):
            return True
        if isinstance(n, ast.Call) and isinstance(n.func, ast.Attribute) and isinstance(n.func.value, ast.Attribute) \
                and n.func.value.attr == "points":
            return True
    return False


def adjustment(st):
    """`if self.F cmp K: self.F += D` (or `-= D`) -> (F, cmp, K, D)"""
    if not (isinstance(st, ast.If) and not st.orelse and len(st.body) == 1 and isinstance(st.test, ast.Compare) and len(st.test.ops) == 1):
        raise py2lean.Unsupported("temporaryExtend bookkeeping statement: " + ast.unparse(st)[:90])
    left, op, right = st.test.left, st.test.ops[0], st.test.comparators[0]
    body = st.body[0]
    ok = (isinstance(left, ast.Attribute) and isinstance(left.value, ast.Name) and left.value.id == "self" and left.attr in FIELDS
          and type(op) in CMPS and isinstance(right, ast.Constant) and isinstance(right.value, int)
          and isinstance(body, ast.AugAssign) and isinstance(body.op, (ast.Add, ast.Sub)) and isinstance(body.target, ast.Attribute)
          and isinstance(body.target.value, ast.Name) and body.target.value.id == "self" and body.target.attr == left.attr
          and isinstance(body.value, ast.Constant) and isinstance(body.value.value, int))
    if not ok:
        raise py2lean.Unsupported("temporaryExtend bookkeeping statement: " + ast.unparse(st)[:90])
    d = body.value.value if isinstance(body.op, ast.Add) else -body.value.value
    return (left.attr, CMPS[type(op)], right.value, d)


def loop_adjustments(block, count_name, mutator):
    """block = body of `if extend_X > 0:`"""
    loops = [s for s in block if isinstance(s, ast.For)]
    if len(loops) != 1:
        raise py2lean.Unsupported("temporaryExtend: expected one loop per side")
    for s in block:
        if s is not loops[0] and touches_state(s):
            raise py2lean.Unsupported("temporaryExtend: state touched outside the loop: " + ast.unparse(s)[:80])
    lp = loops[0]
    it = ast.unparse(lp.iter).replace(" ", "")
    if it != "range(%s)" % count_name or lp.orelse:
        raise py2lean.Unsupported("temporaryExtend: loop over " + it)
    seen_break, seen_mut, adj = False, False, []
    for s in lp.body:
        if not seen_mut:
            if isinstance(s, ast.If) and len(s.body) == 1 and isinstance(s.body[0], ast.Break) and not s.orelse \
                    and ast.unparse(s.test).replace(" ", "") == "notInRange(new_point)":
                seen_break = True
                continue
            if isinstance(s, ast.Expr) and isinstance(s.value, ast.Call) and isinstance(s.value.func, ast.Attribute) \
                    and isinstance(s.value.func.value, ast.Name) and s.value.func.value.id == "self" and s.value.func.attr == mutator \
                    and len(s.value.args) == 1:
                if not seen_break:
                    raise py2lean.Unsupported("temporaryExtend: %s before the range test" % mutator)
                seen_mut = True
                continue
            if touches_state(s):
                raise py2lean.Unsupported("temporaryExtend: state touched before %s: %s" % (mutator, ast.unparse(s)[:80]))
        else:
            adj.append(adjustment(s))
    if not seen_mut:
        raise py2lean.Unsupported("temporaryExtend: no self.%s(...) in the loop" % mutator)
    return adj


def generate(repo=None):
    repo = repo or vlib.REPO
    tree = ast.parse(open(os.path.join(repo, SRC)).read())
    fn = class_method(tree, "PsiContour", "temporaryExtend")
    sides = {}
    for st in fn.body:
        if isinstance(st, ast.Expr) and isinstance(st.value, ast.Constant):
            continue  # docstring
        if isinstance(st, ast.FunctionDef) and st.name == "notInRange":
            if touches_state(st):
                raise py2lean.Unsupported("notInRange touches the contour")
            continue
        if isinstance(st, ast.If) and not st.orelse:
            t = ast.unparse(st.test).replace(" ", "")
            if t == "extend_lower>0" and "lower" not in sides and "upper" not in sides:
                sides["lower"] = loop_adjustments(st.body, "extend_lower", "prepend")
                continue
            if t == "extend_upper>0" and "upper" not in sides:
                sides["upper"] = loop_adjustments(st.body, "extend_upper", "append")
                continue
        raise py2lean.Unsupported("temporaryExtend statement: " + ast.unparse(st)[:80])
    if set(sides) != {"lower", "upper"}:
        raise py2lean.Unsupported("temporaryExtend: missing side")
    return sides


def emit(d):
    L = [HEADER % ("gen_contour.py", SRC + " :: PsiContour.temporaryExtend"), "",
         "namespace Gen.Contour", "",
         "inductive Field | startInd | endInd", "  deriving DecidableEq, Repr", "",
         "inductive Cmp | ge | lt | gt | le", "  deriving DecidableEq, Repr", "",
         "/-- `if self.<field> <cmp> <bound>: self.<field> += <delta>` -/",
         "structure Adjust where", "  field : Field", "  cmp : Cmp", "  bound : Int", "  delta : Int", "  deriving DecidableEq, Repr", ""]

    def lst(a):
        return "[%s]" % ", ".join("⟨.%s, .%s, %d, %d⟩" % x for x in a)

    L += ["/-- the statements that follow `self.prepend(...)` in the `extend_lower` loop, in source order -/",
          "def afterPrepend : List Adjust := " + lst(d["lower"]), "",
          "/-- the statements that follow `self.append(...)` in the `extend_upper` loop, in source order -/",
          "def afterAppend : List Adjust := " + lst(d["upper"]), "", "end Gen.Contour", ""]
    return "\n".join(L)


def main(repo=None):
    d = generate(repo)
    path = os.path.join(vlib.LEAN, "HypnoModel", "Gen", "Contour.lean")
    return write_if_changed(path, emit(d))


if __name__ == "__main__":
    print("changed" if main() else "unchanged", generate())
