"""Generate lean/HypnoModel/Gen/Metric.lean from MeshRegion.calcMetric (both branches, up to the Jacobian check expression),
the dphidy line of MeshRegion.geometry2 and the integrand of MeshRegion.calcZShift (C02, C06)."""
import ast
import os
import sys

sys.path.insert(0, os.path.dirname(os.path.dirname(os.path.abspath(__file__))))
from gen.common import simplify, write_if_changed, HEADER, py2lean, vlib  # noqa: E402

SRC = "hypnotoad/core/mesh.py"
COMPONENTS = ["g11", "g22", "g33", "g12", "g13", "g23", "J", "g_11", "g_22", "g_33", "g_12", "g_13", "g_23"]
SELF_VARS = {"Rxy": "R", "Bpxy": "Bp", "Btxy": "Bt", "hy": "hy", "dphidy": "dphidy", "cosBeta": "cosBeta", "tanBeta": "tanBeta",
             "bpsign": "bpsign"}


class StopHere(Exception):
    def __init__(self, env):
        self.env = env


class T(py2lean.Translator):
    def __init__(self, stop_after=None):
        super().__init__()
        self.stop_after = stop_after

    def expr(self, node, env):
        # self.user_options.X  ->  option variable
        if isinstance(node, ast.Attribute) and isinstance(node.value, ast.Attribute) and isinstance(node.value.value, ast.Name) \
                and node.value.value.id == "self" and node.value.attr == "user_options":
            return ("var", "opt_" + node.attr)
        if isinstance(node, ast.Attribute) and isinstance(node.value, ast.Name) and node.value.id == "self":
            key = "self." + node.attr
            if key in env:
                return env[key]
            return ("var", SELF_VARS.get(node.attr, "self_" + node.attr))
        if isinstance(node, ast.Call):
            f = node.func
            # MultiLocationArray(nx, ny).zero()
            if isinstance(f, ast.Attribute) and f.attr == "zero" and isinstance(f.value, ast.Call):
                return ("num", py2lean.Fraction(0))
            # self.DDX("...") and other opaque methods of self
            if isinstance(f, ast.Attribute) and isinstance(f.value, ast.Name) and f.value.id == "self":
                if f.attr == "DDX":
                    return ("var", "DDX_" + str(node.args[0].value).strip("#"))
                if f.attr in ("calcHy",):
                    return ("var", "hy")
            # self.meshParent.equilibrium.NAME(args) -> external function parameter
            if isinstance(f, ast.Attribute) and isinstance(f.value, ast.Attribute) and f.value.attr == "equilibrium":
                return ("call", "ext_" + f.attr, [self.expr(a, env) for a in node.args])
        return super().expr(node, env)

    def block(self, stmts, env, conds, tracked=None):
        # stop after the assignment to `stop_after`; skip side-effect-only calls
        out = []
        for st in stmts:
            if isinstance(st, ast.Expr) and isinstance(st.value, ast.Call):
                continue
            out.append(st)
            if self.stop_after and isinstance(st, ast.Assign) and len(st.targets) == 1 and isinstance(st.targets[0], ast.Name) \
                    and st.targets[0].id == self.stop_after:
                out.append(ast.Return(value=ast.Name(id=self.stop_after, ctx=ast.Load())))
                break
        return super().block(out, env, conds, tracked)


def branch_envs(repo):
    """symbolically execute calcMetric up to Jcheck; returns {'orth': env, 'nonorth': env}"""
    fn = py2lean.parse_function(os.path.join(repo, SRC), "MeshRegion.calcMetric")

    class T2(T):
        def block(self, stmts, env, conds, tracked=None):
            paths = super().block(stmts, env, conds, tracked)
            return paths

    # we need the environment at the point of `Jcheck = ...`: run with stop_after and capture self.* entries through a
    # second pass that returns the env
    class Cap(T):
        envs = []

        def block(self, stmts, env, conds, tracked=None):
            out = []
            hit = False
            for st in stmts:
                if isinstance(st, ast.Expr) and isinstance(st.value, ast.Call):
                    continue
                out.append(st)
                if isinstance(st, ast.Assign) and len(st.targets) == 1 and isinstance(st.targets[0], ast.Name) and st.targets[0].id == "Jcheck":
                    hit = True
                    break
            if not hit:
                return py2lean.Translator.block(self, out, env, conds, tracked)
            paths = py2lean.Translator.block(self, out, env, conds, tracked)
            return paths

    tr = Cap()
    paths = tr.block(fn.body, {}, [])
    res = {}
    for conds, kind, payload in paths:
        if kind == "raise":
            continue
        if kind != "end":
            raise py2lean.Unsupported("calcMetric: unexpected path kind %s" % kind)
        txt = " ".join(py2lean.pr(c, "R") for c in conds)
        name = "nonorth" if "(¬ opt_orthogonal)" in txt else "orth"
        if name in res:
            raise py2lean.Unsupported("two %s paths" % name)
        env = payload
        comps = {}
        for c in COMPONENTS:
            if "self." + c not in env:
                raise py2lean.Unsupported("component %s not assigned on the %s path" % (c, name))
            comps[c] = env["self." + c]
        if "Jcheck" not in env:
            raise py2lean.Unsupported("Jcheck not found")
        comps["Jcheck"] = env["Jcheck"]
        comps["I"] = env.get("self.I", ("var", "I"))
        res[name] = comps
    if set(res) != {"orth", "nonorth"}:
        raise py2lean.Unsupported("calcMetric paths found: %s" % sorted(res))
    return res


def dphidy_expr(repo):
    fn = py2lean.parse_function(os.path.join(repo, SRC), "MeshRegion.geometry2")
    tr = T()
    # keep only plain assignments to self.dphidy / self.hy
    body = [st for st in fn.body if isinstance(st, ast.Assign)]
    paths = tr.block(body, {}, [])
    env = paths[0][2]
    return env["self.dphidy"]


def integrand_expr(repo):
    fn = py2lean.parse_function(os.path.join(repo, SRC), "MeshRegion.calcZShift")
    target = None
    for node in ast.walk(fn):
        if isinstance(node, ast.FunctionDef) and node.name == "integrand_func":
            target = node
    if target is None:
        raise py2lean.Unsupported("integrand_func not found in calcZShift")
    tr = T()
    paths = tr.block(target.body, {}, [])
    if len(paths) != 1 or paths[0][1] != "return":
        raise py2lean.Unsupported("integrand_func is not a single-return function")
    return [a.arg for a in target.args.args], paths[0][2]


VARS = ["R", "Bp", "hy", "dphidy", "cosBeta", "tanBeta", "bpsign"]


def generate(repo=None):
    repo = repo or vlib.REPO
    br = branch_envs(repo)
    dphi = dphidy_expr(repo)
    iargs, integ = integrand_expr(repo)
    return br, dphi, (iargs, integ)


def emit(br, dphi, integ):
    L = [HEADER % ("gen_metric.py", SRC + " :: MeshRegion.calcMetric / geometry2 / calcZShift"),
         "import Mathlib.Analysis.SpecialFunctions.Sqrt", "", "open Real", ""]
    for mode, ns, ty, nc in (("R", "Gen.R.Metric", "ℝ", "noncomputable "), ("F", "Gen.F.Metric", "Float", "")):
        L.append("namespace %s" % ns)
        for name in ("orth", "nonorth"):
            L.append("")
            L.append("namespace %s" % name)
            comps = br[name]
            for c in COMPONENTS + ["Jcheck"]:
                e = comps[c]
                fv = [v for v in py2lean.free_vars(e) if v != "pi"]
                unknown = [v for v in fv if v not in VARS]
                if unknown:
                    raise py2lean.Unsupported("component %s (%s) uses unexpected quantities %s" % (c, name, unknown))
                L.append("/-- `%s` as assigned on the %s branch of calcMetric (I = 0: shiftedmetric) -/" % (c, name))
                L.append("%sdef %s (%s : %s) : %s :=\n  %s" % (nc, c, " ".join(VARS), ty, ty, py2lean.pr(e, mode)))
            L.append("end %s" % name)
        L.append("")
        fv = [v for v in py2lean.free_vars(dphi)]
        L.append("/-- `dphidy` as assigned in geometry2 -/")
        L.append("%sdef dphidy (%s : %s) : %s :=\n  %s" % (nc, " ".join(fv), ty, ty, py2lean.pr(dphi, mode)))
        iargs, ie = integ
        exts = sorted({x for x in ("fpol", "psi", "Bp_R", "Bp_Z") if ("ext_" + x) in repr(ie)})
        extp = " ".join("(%s : %s)" % (x, (ty + " → " + ty) if x == "fpol" else (ty + " → " + ty + " → " + ty)) for x in exts)
        L.append("/-- integrand of the zShift integral over poloidal arc length (calcZShift.integrand_func) -/")
        L.append("%sdef zShiftIntegrand %s (%s : %s) : %s :=\n  %s" % (nc, extp, " ".join(iargs), ty, ty, py2lean.pr(ie, mode)))
        L.append("")
        L.append("end %s" % ns)
        L.append("")
    return "\n".join(L)


def main():
    br, dphi, integ = generate()
    text = emit(br, dphi, integ)
    return write_if_changed(os.path.join(vlib.LEAN, "HypnoModel", "Gen", "Metric.lean"), text)


if __name__ == "__main__":
    vlib.ensure_dirs()
    print("changed" if main() else "unchanged")
