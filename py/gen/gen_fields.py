"""Generate lean/HypnoModel/Gen/Fields.lean (C03, C07, C18) from
  * Equilibrium.Bzeta … dBdZ                      (hypnotoad/core/equilibrium.py)   — helper chain
  * Equilibrium.magneticFunctionsFromGrid           (spline and dct branches: f_R, f_Z, Bp_R, Bp_Z)
  * TokamakEquilibrium.fpol / fpolprime / pressure  (hypnotoad/cases/tokamak.py)
  * MeshRegion.calc_curvature, R–Z form and x–y form (hypnotoad/core/mesh.py)
  * MeshRegion.geometry1 field lines                (Bpxy, Btxy, Bxy)
All field functions are evaluated at one point (R, Z), so calls `self.Bp_R(R, Z)` become the point value `BR` etc.:
  R Z  BR BZ (= Bp_R, Bp_Z)  f fp (= fpol(psi), fpolprime(psi))  pRR pZZ pRZ (second derivatives of psi)."""
import ast
import os
import sys

sys.path.insert(0, os.path.dirname(os.path.dirname(os.path.abspath(__file__))))
from gen.common import write_if_changed, HEADER, py2lean, vlib, fold, path_conditions  # noqa: E402

EQ = "hypnotoad/core/equilibrium.py"
MESH = "hypnotoad/core/mesh.py"
TOK = "hypnotoad/cases/tokamak.py"

POINT = {"Bp_R": "BR", "Bp_Z": "BZ", "d2psidR2": "pRR", "d2psidZ2": "pZZ", "d2psidRdZ": "pRZ", "psi": "psi"}
HELPERS = ["Bzeta", "B2", "dBzetadR", "dBzetadZ", "dBRdR", "dBRdZ", "dBZdR", "dBZdZ", "dB2dR", "dB2dZ", "dBdR", "dBdZ"]


class EqT(py2lean.Translator):
    """methods of Equilibrium: self.X(R, Z) -> point value or inlined helper"""

    def __init__(self, helpers):
        super().__init__()
        self.helpers = helpers  # name -> IR (already point-valued)

    def method_call(self, name, node, env):
        args = node.args
        if name in POINT:
            return ("var", POINT[name])
        if name == "fpol":
            return ("var", "f")
        if name == "fpolprime":
            return ("var", "fp")
        if name in self.helpers:
            return self.helpers[name]
        raise py2lean.Unsupported("equilibrium method %s" % name)

    def expr(self, node, env):
        if isinstance(node, ast.Call) and isinstance(node.func, ast.Attribute) and isinstance(node.func.value, ast.Name) \
                and node.func.value.id == "self":
            return self.method_call(node.func.attr, node, env)
        return super().expr(node, env)


def helper_chain(repo):
    helpers = {}
    for h in HELPERS:
        fn = py2lean.parse_function(os.path.join(repo, EQ), "Equilibrium." + h)
        tr = EqT(helpers)
        paths = tr.block(fn.body, {}, [])
        if len(paths) != 1 or paths[0][1] != "return":
            raise py2lean.Unsupported("Equilibrium.%s is not a single-return method" % h)
        helpers[h] = fold(paths[0][2])
    return helpers


class CurvT(py2lean.Translator):
    """calc_curvature: local aliases of equilibrium methods, nested defs, self.* arrays as point values"""

    SELF = {"Rxy": "R", "Zxy": "Z", "Bpxy": "Bp", "Btxy": "Bt", "Bxy": "B", "hy": "hy", "tanBeta": "tanBeta", "bpsign": "bpsign"}

    def __init__(self, helpers):
        super().__init__()
        self.helpers = helpers

    def expr(self, node, env):
        # equilib = self.meshParent.equilibrium ; X = equilib.NAME
        if isinstance(node, ast.Attribute) and isinstance(node.value, ast.Attribute) and node.value.attr == "meshParent" \
                and node.attr == "equilibrium":
            return ("equilib",)
        if isinstance(node, ast.Attribute) and isinstance(node.value, ast.Name) and env.get(node.value.id) == ("equilib",):
            return ("extfn", node.attr)
        if isinstance(node, ast.Attribute) and isinstance(node.value, ast.Name) and node.value.id == "self":
            key = "self." + node.attr
            if key in env:
                return env[key]
            if node.attr == "I":
                return ("num", py2lean.Fraction(0))
            return ("var", self.SELF.get(node.attr, "self_" + node.attr))
        if isinstance(node, ast.Call):
            f = node.func
            target = None
            if isinstance(f, ast.Name) and f.id in env and env[f.id][0] == "extfn":
                target = env[f.id][1]
            if isinstance(f, ast.Attribute) and isinstance(f.value, ast.Name) and env.get(f.value.id) == ("equilib",):
                target = f.attr
            if target is not None:
                if target in POINT:
                    return ("var", POINT[target])
                if target == "fpol":
                    return ("var", "f")
                if target == "fpolprime":
                    return ("var", "fp")
                if target in self.helpers:
                    return self.helpers[target]
                raise py2lean.Unsupported("equilibrium method %s in calc_curvature" % target)
            if isinstance(f, ast.Attribute) and isinstance(f.value, ast.Name) and f.value.id == "self" and f.attr in ("DDX", "DDY"):
                return ("var", f.attr + "_" + "".join(c if c.isalnum() else "_" for c in str(node.args[0].value)).strip("_"))
        return super().expr(node, env)


def curvature(repo, helpers):
    fn = py2lean.parse_function(os.path.join(repo, MESH), "MeshRegion.calc_curvature")
    tr = CurvT(helpers)
    paths = tr.block(fn.body, {}, [])
    out = {}
    for conds, kind, payload in paths:
        if kind != "end":
            continue
        txt = " ∧ ".join(py2lean.pr(c, "R") for c in conds)
        env = payload
        if "self.curl_bOverB_x" not in env:
            continue
        if "DDX" in repr(env["self.curl_bOverB_y"]) or "DDY" in repr(env["self.curl_bOverB_x"]):
            name = "xy"
        elif "(¬ opt_orthogonal)" in txt:
            name = "rz_nonorth"
        else:
            name = "rz_orth"
        if name in out:
            raise py2lean.Unsupported("two curvature paths map to %s" % name)
        out[name] = {k: fold(env["self." + k]) for k in ("curl_bOverB_x", "curl_bOverB_y", "curl_bOverB_z", "bxcvx", "bxcvy", "bxcvz")}
    if set(out) != {"xy", "rz_orth", "rz_nonorth"}:
        raise py2lean.Unsupported("curvature paths found: %s" % sorted(out))
    return out


class SplineT(py2lean.Translator):
    """magneticFunctionsFromGrid: psi_func(R, Z, dx=a, dy=b) -> point values of the interpolant's derivatives"""

    def expr(self, node, env):
        if isinstance(node, ast.Attribute) and isinstance(node.value, ast.Attribute) and node.value.attr == "_dct":
            return ("extfn", node.attr)
        if isinstance(node, ast.Call):
            f = node.func
            if isinstance(f, ast.Attribute) and f.attr == "__get__":
                return self.expr(f.value, env)
            if isinstance(f, ast.Attribute) and isinstance(f.value, ast.Name) and f.value.id == "self" and f.attr == "psi_func":
                kw = {k.arg: (k.value.value if isinstance(k.value, ast.Constant) else None) for k in node.keywords}
                dx, dy = kw.get("dx", 0) or 0, kw.get("dy", 0) or 0
                a0 = self.expr(node.args[0], env)
                a1 = self.expr(node.args[1], env)
                return ("call", "ext_D%d%d" % (dx, dy), [a0, a1])
            if isinstance(f, ast.Attribute) and isinstance(f.value, ast.Name) and f.value.id in self.numpy_names and f.attr == "clip":
                a = [self.expr(x, env) for x in node.args]
                return ("call", "clip", a)
            # self._dct.ddR(R, Z) etc.
            if isinstance(f, ast.Attribute) and isinstance(f.value, ast.Attribute) and f.value.attr == "_dct":
                return ("call", "ext_" + {"ddR": "D10", "ddZ": "D01", "d2dR2": "D20", "d2dZ2": "D02", "d2dRdZ": "D11"}[f.attr],
                        [self.expr(a, env) for a in node.args])
            if isinstance(f, ast.Attribute) and isinstance(f.value, ast.Name) and f.value.id == "self" and f.attr == "_dct":
                return ("call", "ext_D00", [self.expr(a, env) for a in node.args])
            if isinstance(f, ast.Name) and f.id in ("min", "max") and len(node.args) == 1:
                return ("var", {"min": "lo", "max": "hi"}[f.id] + ast.unparse(node.args[0]))
            if isinstance(f, ast.Name) and f.id == "DCT_2D":
                return ("var", "dct_obj")
            if isinstance(f, ast.Attribute) and f.attr == "RectBivariateSpline":
                return ("var", "spline_obj")
        return super().expr(node, env)

    def block(self, stmts, env, conds, tracked=None):
        keep = [st for st in stmts if not isinstance(st, (ast.ImportFrom, ast.Import))]
        return super().block(keep, env, conds, tracked)


def grid_functions(repo):
    fn = py2lean.parse_function(os.path.join(repo, EQ), "Equilibrium.magneticFunctionsFromGrid")
    tr = SplineT()
    paths = tr.block(fn.body, {}, [])
    out = {}
    for conds, kind, payload in paths:
        if kind != "end":
            continue
        txt = " ".join(py2lean.pr(c, "R") for c in conds)
        env = payload
        name = "spline" if "f_R" in env and "self.psi_func" in env else "dct"
        if name in out:
            raise py2lean.Unsupported("two %s paths" % name)
        d = {}
        for k in ("f_R", "f_Z", "Bp_R", "Bp_Z"):
            v = env.get("self." + k)
            if v is None or v[0] != "lam":
                raise py2lean.Unsupported("%s.%s is not a function" % (name, k))
            # parameters are (self,) R, Z — drop self
            body = v[2]
            d[k] = fold(body)
        out[name] = d
    if set(out) != {"spline", "dct"}:
        raise py2lean.Unsupported("interpolation branches found: %s" % sorted(out))
    return out


class TokT(py2lean.Translator):
    def expr(self, node, env):
        if isinstance(node, ast.Call) and isinstance(node.func, ast.Attribute) and isinstance(node.func.value, ast.Name) \
                and node.func.value.id == "self" and node.func.attr in ("f_spl", "fprime_spl", "p_spl"):
            return ("call", "ext_" + node.func.attr, [self.expr(a, env) for a in node.args])
        if isinstance(node, ast.Attribute) and isinstance(node.value, ast.Name) and node.value.id == "self" and node.attr == "f_psi_sign":
            return ("var", "sigma")
        return super().expr(node, env)


def tokamak_profiles(repo):
    out = {}
    for name in ("fpol", "fpolprime"):
        fn = py2lean.parse_function(os.path.join(repo, TOK), "TokamakEquilibrium." + name)
        paths = TokT().block(fn.body, {}, [])
        if len(paths) != 1 or paths[0][1] != "return":
            raise py2lean.Unsupported("TokamakEquilibrium.%s is not single-return" % name)
        out[name] = fold(paths[0][2])
    return out


def emit(helpers, curv, gridf, prof):
    L = [HEADER % ("gen_fields.py", "equilibrium.py (Bzeta…dBdZ, magneticFunctionsFromGrid), tokamak.py (fpol, fpolprime), mesh.py (calc_curvature)"),
         "import Mathlib.Analysis.SpecialFunctions.Sqrt", "", "open Real", ""]
    PV = ["R", "Z", "BR", "BZ", "f", "fp", "pRR", "pZZ", "pRZ"]
    for mode, ns, ty, nc in (("R", "Gen.R.Fields", "ℝ", "noncomputable "), ("F", "Gen.F.Fields", "Float", "")):
        L += ["namespace %s" % ns, ""]
        for h in HELPERS:
            e = helpers[h]
            bad = [v for v in py2lean.free_vars(e) if v not in PV]
            if bad:
                raise py2lean.Unsupported("helper %s uses %s" % (h, bad))
            L.append("/-- `Equilibrium.%s` at one point, in terms of the point values of the interpolated fields -/" % h)
            L.append("%sdef %s (%s : %s) : %s :=\n  %s" % (nc, h, " ".join(PV), ty, ty, py2lean.pr(e, mode)))
        L.append("")
        CV = PV + ["Bp", "Bt", "B", "hy", "tanBeta", "bpsign"]
        for name in ("rz_orth", "rz_nonorth"):
            L.append("namespace %s" % name)
            for k, e in curv[name].items():
                bad = [v for v in py2lean.free_vars(e) if v not in CV]
                if bad:
                    raise py2lean.Unsupported("curvature %s.%s uses %s" % (name, k, bad))
                L.append("%sdef %s (%s : %s) : %s :=\n  %s" % (nc, k, " ".join(CV), ty, ty, py2lean.pr(e, mode)))
            L.append("end %s" % name)
            L.append("")
        XY = ["R", "Bp", "Bt", "B", "hy", "bpsign", "DDY_Bxy", "DDX_Btxy__Rxy__Bxy__2", "DDX_hy__Bpxy", "DDX_Btxy__Rxy"]
        L.append("namespace xy")
        for k, e in curv["xy"].items():
            fv = py2lean.free_vars(e)
            bad = [v for v in fv if v not in XY]
            if bad:
                raise py2lean.Unsupported("curvature xy.%s uses %s" % (k, bad))
            L.append("%sdef %s (%s : %s) : %s :=\n  %s" % (nc, k, " ".join(XY), ty, ty, py2lean.pr(e, mode)))
        L.append("end xy")
        L.append("")
        for name in ("spline", "dct"):
            L.append("namespace %s" % name)
            for k, e in gridf[name].items():
                fv = [v for v in ("R", "Z", "loR", "hiR", "loZ", "hiZ") if v in py2lean.free_vars(e)]
                other = [v for v in py2lean.free_vars(e) if v not in fv]
                if other:
                    raise py2lean.Unsupported("%s.%s uses %s" % (name, k, other))
                ext = sorted({x for x in ("D00", "D10", "D01", "D20", "D02", "D11") if ("ext_" + x) in repr(e)})
                extp = " ".join("(%s : %s → %s → %s)" % (x, ty, ty, ty) for x in ext)
                L.append("/-- `%s` of the %s branch; Dab = ∂^a_R ∂^b_Z of the interpolant; lo/hi = the grid's bounding box -/" % (k, name))
                L.append("%sdef %s %s (%s : %s) : %s :=\n  %s" % (nc, k, extp, " ".join(fv), ty, ty, py2lean.pr(e, mode)))
            L.append("end %s" % name)
            L.append("")
        for k, e in prof.items():
            ext = sorted({x for x in ("f_spl", "fprime_spl") if ("ext_" + x) in repr(e)})
            extp = " ".join("(%s : %s → %s)" % (x, ty, ty) for x in ext)
            fv = [v for v in py2lean.free_vars(e)]
            L.append("/-- `TokamakEquilibrium.%s` -/" % k)
            L.append("%sdef tok_%s %s (%s : %s) : %s :=\n  %s" % (nc, k, extp, " ".join(fv), ty, ty, py2lean.pr(e, mode)))
        L += ["", "end %s" % ns, ""]
    return "\n".join(L)


def main():
    repo = vlib.REPO
    helpers = helper_chain(repo)
    curv = curvature(repo, helpers)
    gridf = grid_functions(repo)
    prof = tokamak_profiles(repo)
    return write_if_changed(os.path.join(vlib.LEAN, "HypnoModel", "Gen", "Fields.lean"), emit(helpers, curv, gridf, prof))


if __name__ == "__main__":
    vlib.ensure_dirs()
    print("changed" if main() else "unchanged")
