"""Generate lean/HypnoModel/Gen/Follow.lean from the live source of hypnotoad.core.mesh.followPerpendicular (C04):
* the right-hand side handed to solve_ivp (the inner function `f`): its returned pair, as expressions in `f_R`, `f_Z` and the state `x`;
  statements of `f` other than the call counter are not accepted;
* the arguments of the solve_ivp call (which local goes to fun / t_span / y0 / t_eval / rtol / atol);
* every recursive self-call with the keywords it forwards (the tolerances, the iteration limit and the field functions must reach every
  branch of the recursion).
Fail closed: an unrecognised statement in `f`, a solve_ivp call in another form or a self-call with positional surprises raises Unsupported."""
import ast
import os
import sys

sys.path.insert(0, os.path.dirname(os.path.dirname(os.path.abspath(__file__))))
from gen.common import write_if_changed, HEADER, py2lean, vlib  # noqa: E402

SRC = "hypnotoad/core/mesh.py"


def top_function(tree, name):
    for n in tree.body:
        if isinstance(n, ast.FunctionDef) and n.name == name:
            return n
    raise py2lean.Unsupported("no function " + name)


def rhs_of(fn):
    inner = [n for n in fn.body if isinstance(n, ast.FunctionDef) and n.name == "f"]
    if len(inner) != 1:
        raise py2lean.Unsupported("followPerpendicular: expected one inner function f")
    f = inner[0]
    args = [a.arg for a in f.args.args]
    if len(args) != 2:
        raise py2lean.Unsupported("f takes " + str(args))
    x = args[1]
    ret = None
    for st in f.body:
        if isinstance(st, ast.Nonlocal) and st.names == ["call_counter"]:
            continue
        if isinstance(st, ast.AugAssign) and isinstance(st.target, ast.Name) and st.target.id == "call_counter":
            continue
        if isinstance(st, ast.If) and not st.orelse and len(st.body) == 1 and isinstance(st.body[0], ast.Raise) \
                and "call_counter" in ast.unparse(st.test) and not any(isinstance(n, ast.Name) and n.id == x for n in ast.walk(st)):
            continue
        if isinstance(st, ast.Return) and ret is None and st is f.body[-1]:
            ret = st.value
            continue
        raise py2lean.Unsupported("statement in the right-hand side f: " + ast.unparse(st)[:80])
    if not (isinstance(ret, ast.Tuple) and len(ret.elts) == 2):
        raise py2lean.Unsupported("f does not return a pair")
    comps = []
    for e in ret.elts:
        # accepted form: <name>(x[0], x[1]) with <name> one of the keyword parameters f_R / f_Z
        if not (isinstance(e, ast.Call) and isinstance(e.func, ast.Name) and e.func.id in ("f_R", "f_Z") and not e.keywords and len(e.args) == 2
                and [ast.unparse(a).replace(" ", "") for a in e.args] == ["%s[0]" % x, "%s[1]" % x]):
            raise py2lean.Unsupported("component of the right-hand side: " + ast.unparse(e)[:80])
        comps.append(e.func.id)
    return comps


def calls_of(fn):
    solve, selfcalls = [], []
    for n in ast.walk(fn):
        if isinstance(n, ast.Call) and isinstance(n.func, ast.Name):
            if n.func.id == "solve_ivp":
                solve.append(n)
            elif n.func.id == fn.name:
                selfcalls.append(n)
    if len(solve) != 1:
        raise py2lean.Unsupported("expected exactly one solve_ivp call")
    s = solve[0]
    pos = [ast.unparse(a).replace(" ", "") for a in s.args]
    kw = {k.arg: ast.unparse(k.value).replace(" ", "") for k in s.keywords}
    if len(pos) != 3 or None in kw:
        raise py2lean.Unsupported("solve_ivp call shape")
    sc = []
    for c in sorted(selfcalls, key=lambda c: (c.lineno, c.col_offset)):
        if any(k.arg is None for k in c.keywords):
            raise py2lean.Unsupported("self-call with **kwargs")
        sc.append(([ast.unparse(a).replace(" ", "") for a in c.args], {k.arg: ast.unparse(k.value).replace(" ", "") for k in c.keywords}))
    return pos, kw, sc


def generate(repo=None):
    repo = repo or vlib.REPO
    tree = ast.parse(open(os.path.join(repo, SRC)).read())
    fn = top_function(tree, "followPerpendicular")
    comps = rhs_of(fn)
    pos, kw, sc = calls_of(fn)
    return {"rhs": comps, "solve_pos": pos, "solve_kw": kw, "self": sc}


def q(sv):
    return '"%s"' % sv.replace("\\", "\\\\").replace('"', "'")


def emit(d):
    L = [HEADER % ("gen_follow.py", SRC + " :: followPerpendicular"), "", "namespace Gen.Follow", "",
         "/-- the right-hand side handed to solve_ivp: the pair `(" + ", ".join("%s(x[0], x[1])" % c for c in d["rhs"]) + ")` -/",
         "def rhs {α : Type} (f_R f_Z : α → α → α) (R Z : α) : α × α := (%s R Z, %s R Z)" % tuple(d["rhs"]), "",
         "/-- positional arguments of the solve_ivp call (fun, t_span, y0) -/",
         "def solvePositional : List String := [%s]" % ", ".join(q(p) for p in d["solve_pos"]), "",
         "/-- keyword arguments of the solve_ivp call -/",
         "def solveKeywords : List (String × String) := [%s]" % ", ".join("(%s, %s)" % (q(k), q(v)) for k, v in d["solve_kw"].items()), "",
         "/-- the recursive calls in source order: keyword ↦ expression -/",
         "def selfCalls : List (List (String × String)) :=\n  [%s]" % ",\n   ".join("[%s]" % ", ".join("(%s, %s)" % (q(k), q(v)) for k, v in kw.items()) for _, kw in d["self"]), "",
         "/-- positional arguments of the recursive calls -/",
         "def selfCallsPositional : List (List String) :=\n  [%s]" % ", ".join("[%s]" % ", ".join(q(p) for p in pos) for pos, _ in d["self"]), "",
         "end Gen.Follow", ""]
    return "\n".join(L)


def main(repo=None):
    d = generate(repo)
    path = os.path.join(vlib.LEAN, "HypnoModel", "Gen", "Follow.lean")
    return write_if_changed(path, emit(d))


if __name__ == "__main__":
    print("changed" if main() else "unchanged")
    print(generate())
